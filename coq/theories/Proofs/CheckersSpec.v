(** The boolean checkers of Oracle/Checkers.v (extracted to OCaml and used by the harness to
    judge implementation outputs) are equivalent to their Prop specifications in
    Spec/Partition.v (Section Items) and Model/Binner.v (wf).

    The checkers compare items BY NAME only; the multiset statements therefore assume
    [names_det]: among the items at hand a name determines the item. *)
From Prtpy Require Import Base.Prelude Model.Binner Spec.Partition Oracle.Checkers
  Proofs.BaseLemmas Proofs.BinnerLemmas.
From Coq Require Import ZifyBool Permutation Sorting.Sorted.

Definition names_det (l : list citem) : Prop :=
  forall x y, In x l -> In y l -> cname x = cname y -> x = y.

Lemma names_det_incl l l' : (forall x, In x l' -> In x l) -> names_det l -> names_det l'.
Proof.
  intros Hincl Hdet x y Hx Hy Hn.
  apply Hdet; [apply Hincl; exact Hx | apply Hincl; exact Hy | exact Hn].
Qed.

(** without [names_det] the name-only comparison accepts different items *)
Example same_items_b_needs_names_det :
  same_items_b [(1, 5); (2, 6)] [(2, 7); (1, 5)] = true.
Proof. vm_compute. reflexivity. Qed.

(** ---- 1. remove_name ---- *)

Lemma remove_name_some n l : forall r,
  remove_name n l = Some r -> exists x, In x l /\ cname x = n /\ Permutation l (x :: r).
Proof.
  induction l as [|y t IH]; intros r H; cbn [remove_name] in H.
  - discriminate H.
  - destruct (n =? cname y) eqn:E.
    + injection H as H. subst r. exists y. split; [left; reflexivity|].
      split; [lia | apply Permutation_refl].
    + destruct (remove_name n t) as [r0|] eqn:E2; [|discriminate H].
      injection H as H. subst r.
      destruct (IH r0 eq_refl) as [x [Hin [Hn Hp]]].
      exists x. split; [right; exact Hin|]. split; [exact Hn|].
      apply Permutation_trans with (y :: x :: r0).
      * apply perm_skip. exact Hp.
      * apply perm_swap.
Qed.

Lemma remove_name_none n l :
  remove_name n l = None <-> ~ exists x, In x l /\ cname x = n.
Proof.
  induction l as [|y t IH]; cbn [remove_name].
  - split.
    + intros _ [x [Hin _]]. inversion Hin.
    + intros _. reflexivity.
  - destruct (n =? cname y) eqn:E.
    + split.
      * intros H. discriminate H.
      * intros H. exfalso. apply H. exists y. split; [left; reflexivity | lia].
    + destruct (remove_name n t) as [r0|] eqn:E2.
      * split.
        -- intros H. discriminate H.
        -- intros H. exfalso.
           destruct (remove_name_some n t r0 E2) as [x [Hin [Hn _]]].
           apply H. exists x. split; [right; exact Hin | exact Hn].
      * split.
        -- intros _ [x [[Hx|Hx] Hn]].
           ++ subst x. lia.
           ++ destruct IH as [IH1 _]. apply (IH1 eq_refl). exists x. split; assumption.
        -- intros _. reflexivity.
Qed.

Theorem remove_name_spec n l :
  (forall r, remove_name n l = Some r ->
     exists x, In x l /\ cname x = n /\ Permutation l (x :: r)) /\
  (remove_name n l = None <-> ~ exists x, In x l /\ cname x = n).
Proof.
  split; [apply remove_name_some | apply remove_name_none].
Qed.

(** finding a known member: under names_det the removed element is that member *)
Lemma remove_name_in x l :
  In x l -> names_det (x :: l) ->
  exists r, remove_name (cname x) l = Some r /\ Permutation l (x :: r).
Proof.
  intros Hin Hdet.
  destruct (remove_name (cname x) l) as [r|] eqn:E.
  - exists r. split; [reflexivity|].
    destruct (remove_name_some _ _ _ E) as [y [Hy [Hn Hp]]].
    assert (y = x) as ->.
    { apply Hdet; [right; exact Hy | left; reflexivity | exact Hn]. }
    exact Hp.
  - exfalso. apply remove_name_none in E. apply E. exists x. split; [exact Hin | reflexivity].
Qed.

(** ---- 2. sub_items ---- *)

Theorem sub_items_sound l1 : forall l2 rest,
  names_det (l1 ++ l2) -> sub_items l1 l2 = Some rest -> Permutation (l1 ++ rest) l2.
Proof.
  induction l1 as [|x t IH]; intros l2 rest Hdet H; cbn [sub_items] in H.
  - injection H as H. subst rest. apply Permutation_refl.
  - destruct (remove_name (cname x) l2) as [r|] eqn:E; [|discriminate H].
    destruct (remove_name_some _ _ _ E) as [y [Hy [Hn Hp]]].
    assert (y = x) as ->.
    { apply Hdet; [ | left; reflexivity | exact Hn].
      apply in_or_app. right. exact Hy. }
    assert (Hdet' : names_det (t ++ r)).
    { apply (names_det_incl _ _) with (2 := Hdet). intros z Hz.
      apply in_app_or in Hz. destruct Hz as [Hz|Hz].
      - right. apply in_or_app. left. exact Hz.
      - apply in_or_app. right. apply Permutation_sym in Hp.
        apply (Permutation_in _ Hp). right. exact Hz. }
    specialize (IH r rest Hdet' H).
    apply Permutation_trans with (x :: r).
    + cbn [app]. apply perm_skip. exact IH.
    + apply Permutation_sym. exact Hp.
Qed.

Theorem sub_items_complete l1 : forall l2 rest,
  names_det (l1 ++ l2) -> Permutation (l1 ++ rest) l2 ->
  exists rest', sub_items l1 l2 = Some rest' /\ Permutation rest rest'.
Proof.
  induction l1 as [|x t IH]; intros l2 rest Hdet Hp; cbn [sub_items].
  - exists l2. split; [reflexivity | exact Hp].
  - assert (Hin : In x l2).
    { apply (Permutation_in _ Hp). left. reflexivity. }
    assert (Hdx : names_det (x :: l2)).
    { apply (names_det_incl _ _) with (2 := Hdet). intros z [Hz|Hz].
      - left. exact Hz.
      - apply in_or_app. right. exact Hz. }
    destruct (remove_name_in x l2 Hin Hdx) as [r [Er Hpr]].
    rewrite Er.
    assert (Hdet' : names_det (t ++ r)).
    { apply (names_det_incl _ _) with (2 := Hdet). intros z Hz.
      apply in_app_or in Hz. destruct Hz as [Hz|Hz].
      - right. apply in_or_app. left. exact Hz.
      - apply in_or_app. right. apply Permutation_sym in Hpr.
        apply (Permutation_in _ Hpr). right. exact Hz. }
    apply (IH r rest Hdet').
    apply Permutation_cons_inv with (a := x).
    apply Permutation_trans with l2; [exact Hp | exact Hpr].
Qed.

(** ---- 3. same_items_b ---- *)

Theorem same_items_b_spec l1 l2 :
  names_det (l1 ++ l2) -> (same_items_b l1 l2 = true <-> Permutation l1 l2).
Proof.
  intros Hdet. unfold same_items_b. split.
  - intros H. destruct (sub_items l1 l2) as [rest|] eqn:E; [|discriminate H].
    destruct rest as [|z zs]; [|discriminate H].
    apply sub_items_sound in E; [|exact Hdet].
    rewrite app_nil_r in E. exact E.
  - intros Hp.
    destruct (sub_items_complete l1 l2 [] Hdet) as [rest' [E Hr]].
    { rewrite app_nil_r. exact Hp. }
    rewrite E. apply Permutation_nil in Hr. subst rest'. reflexivity.
Qed.

(** ---- 4. wf_b ---- *)

Theorem wf_b_spec (b : bins citem) : wf_b b = true <-> wf cval b.
Proof.
  unfold wf_b, wf. rewrite forallb_forall, Forall_forall.
  split; intros H bn Hbn; specialize (H bn Hbn); unfold wf_bin in *; lia.
Qed.

(** ---- 5. is_partition_b ---- *)

Theorem is_partition_b_spec k items (b : bins citem) :
  names_det (contents b ++ items) ->
  (is_partition_b k items b = true <-> is_partition cval k items b).
Proof.
  intros Hdet. unfold is_partition_b, is_partition.
  rewrite !andb_true_iff, (same_items_b_spec _ _ Hdet), Nat.eqb_eq, wf_b_spec.
  tauto.
Qed.

(** ---- 6. is_packing_b ---- *)

Lemma feasible_b_spec C (b : bins citem) :
  forallb (fun bn => fst bn <=? C) b = true <-> feasible C b.
Proof.
  unfold feasible. rewrite forallb_forall, Forall_forall.
  split; intros H bn Hbn; specialize (H bn Hbn); lia.
Qed.

Theorem is_packing_b_spec C items (b : bins citem) :
  names_det (contents b ++ items) ->
  (is_packing_b C items b = true <-> is_packing cval C items b).
Proof.
  intros Hdet. unfold is_packing_b, is_packing.
  rewrite !andb_true_iff, (same_items_b_spec _ _ Hdet), feasible_b_spec, wf_b_spec.
  tauto.
Qed.

(** ---- 7. nonempty_b ---- *)

Theorem nonempty_b_spec (b : bins citem) : nonempty_b b = true <-> all_nonempty b.
Proof.
  unfold nonempty_b, all_nonempty. rewrite forallb_forall, Forall_forall.
  split; intros H bn Hbn; specialize (H bn Hbn); destruct (snd bn) as [|x xs].
  - discriminate H.
  - intros Hc. discriminate Hc.
  - exfalso. apply H. reflexivity.
  - reflexivity.
Qed.

(** ---- 8. anyfit_b ---- *)

Theorem anyfit_b_spec C (b : bins citem) : anyfit_b C b = true <-> anyfit cval C b.
Proof.
  induction b as [|bn t IH]; cbn [anyfit_b anyfit].
  - split; intros _; [exact I | reflexivity].
  - rewrite andb_true_iff, IH, forallb_forall, Forall_forall.
    split; intros [H1 H2]; (split; [|exact H2]); intros later Hl; specialize (H1 later Hl);
      destruct (snd later) as [|x xs].
    + discriminate H1.
    + lia.
    + contradiction.
    + lia.
Qed.

(** ---- 9. ascending_b ---- *)

Lemma ascending_b_Sorted l : ascending_b l = true <-> Sorted Z.le l.
Proof.
  induction l as [|x t IH].
  - split; intros _; [constructor | reflexivity].
  - cbn [ascending_b]. destruct t as [|y t'].
    + split; intros _; [constructor; constructor | reflexivity].
    + rewrite andb_true_iff, IH. split.
      * intros [Hxy Hs]. constructor; [exact Hs | constructor; lia].
      * intros Hs. inversion Hs as [|a l' Hs' Hhd]; subst.
        inversion Hhd as [|b l'' Hle]; subst. split; [lia | exact Hs'].
Qed.

Lemma ascending_b_StronglySorted l : ascending_b l = true <-> StronglySorted Z.le l.
Proof.
  rewrite ascending_b_Sorted. split.
  - apply Sorted_StronglySorted. intros a b c Hab Hbc. lia.
  - apply StronglySorted_Sorted.
Qed.

Lemma StronglySorted_nth l :
  StronglySorted Z.le l <->
  (forall i j, (i <= j < length l)%nat -> nth i l 0 <= nth j l 0).
Proof.
  induction l as [|x t IH].
  - split.
    + intros _ i j Hij. cbn [length] in Hij. lia.
    + intros _. constructor.
  - split.
    + intros Hs. inversion Hs as [|a l' Hs' Hall]; subst.
      intros i j Hij. cbn [length] in Hij.
      destruct i as [|i]; destruct j as [|j]; cbn [nth].
      * lia.
      * rewrite Forall_forall in Hall. apply Hall. apply nth_In. lia.
      * lia.
      * destruct IH as [IH1 _]. apply (IH1 Hs'). lia.
    + intros H. constructor.
      * apply IH. intros i j Hij. apply (H (S i) (S j)). cbn [length]. lia.
      * rewrite Forall_forall. intros y Hy.
        destruct (In_nth _ _ 0 Hy) as [j [Hj Hnth]].
        rewrite <- Hnth. apply (H O (S j)). cbn [length]. lia.
Qed.

(** main form: elementary index statement (also available: [ascending_b_Sorted] with
    [Sorted Z.le], [ascending_b_StronglySorted] with [StronglySorted Z.le]) *)
Theorem ascending_b_spec l :
  ascending_b l = true <->
  (forall i j, (i <= j < length l)%nat -> nth i l 0 <= nth j l 0).
Proof.
  rewrite ascending_b_StronglySorted. apply StronglySorted_nth.
Qed.

(** ---- 10. is_cover_b ---- *)

Lemma full_b_spec C (b : bins citem) :
  forallb (fun bn => C <=? fst bn) b = true <-> Forall (fun bn => C <= fst bn) b.
Proof.
  rewrite forallb_forall, Forall_forall.
  split; intros H bn Hbn; specialize (H bn Hbn); lia.
Qed.

Theorem is_cover_b_sound C items (b : bins citem) r :
  names_det (contents b ++ items) -> is_cover_b C items b = Some r ->
  exists rest, is_cover cval C items b rest /\ zsum (map cval rest) = r.
Proof.
  intros Hdet H. unfold is_cover_b in H.
  destruct (forallb (fun bn => C <=? fst bn) b && wf_b b) eqn:E; [|discriminate H].
  apply andb_true_iff in E. destruct E as [Ef Ew].
  destruct (sub_items (contents b) items) as [rest|] eqn:Es; [|discriminate H].
  injection H as H. exists rest. split; [|exact H].
  unfold is_cover. split; [apply full_b_spec; exact Ef|].
  split; [apply wf_b_spec; exact Ew|].
  apply sub_items_sound; assumption.
Qed.

Theorem is_cover_b_complete C items (b : bins citem) rest :
  names_det (contents b ++ items) -> is_cover cval C items b rest ->
  is_cover_b C items b = Some (zsum (map cval rest)).
Proof.
  intros Hdet [Hf [Hw Hp]]. unfold is_cover_b.
  apply full_b_spec in Hf. apply wf_b_spec in Hw. rewrite Hf, Hw. cbn [andb].
  destruct (sub_items_complete _ _ _ Hdet Hp) as [rest' [E Hr]].
  rewrite E. f_equal. apply zsum_perm. apply Permutation_map. apply Permutation_sym. exact Hr.
Qed.

(** the checker's answer is determined by the specification: any two leftovers have the
    same total value *)
Corollary is_cover_b_iff C items (b : bins citem) r :
  names_det (contents b ++ items) ->
  (is_cover_b C items b = Some r <->
   exists rest, is_cover cval C items b rest /\ zsum (map cval rest) = r).
Proof.
  intros Hdet. split.
  - apply is_cover_b_sound. exact Hdet.
  - intros [rest [Hc Hr]]. rewrite <- Hr. apply is_cover_b_complete; assumption.
Qed.

Print Assumptions remove_name_spec.
Print Assumptions sub_items_sound.
Print Assumptions sub_items_complete.
Print Assumptions same_items_b_spec.
Print Assumptions wf_b_spec.
Print Assumptions is_partition_b_spec.
Print Assumptions is_packing_b_spec.
Print Assumptions nonempty_b_spec.
Print Assumptions anyfit_b_spec.
Print Assumptions ascending_b_Sorted.
Print Assumptions ascending_b_spec.
Print Assumptions is_cover_b_sound.
Print Assumptions is_cover_b_complete.
Print Assumptions is_cover_b_iff.
