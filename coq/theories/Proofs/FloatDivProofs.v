(** floor / ceil of a correctly rounded float division of integers.

    prtpy/objectives.py computes lower bounds with [np.floor(a / i)] and [np.ceil(a / k)] where
    [a] and [i] are Python numbers holding integers; the Gallina model (Model/Objectives.v) uses
    the exact integer quotients [a / i] (Z.div, floor) and [cdiv a i] (ceiling) instead.  This file
    discharges that modelling assumption ("floor_fl_div") relative to the dyadic model of IEEE
    binary64 of Model/Multifit.v: [rnd53 a i] is the correctly rounded (53 significant bits,
    round-to-nearest-even) quotient, see [rnd53_rounds] in Proofs/MultifitProofs.v.

      floor_fl_div : 0 <= a < 2^53 -> 1 <= i -> ffloor (rnd53 a i) = a / i
      ceil_fl_div  : 0 <= a < 2^53 -> 1 <= i -> fceil  (rnd53 a i) = cdiv a i

    Proof: let x = a/i, q = floor x, c = ceil x.  q and c are integers <= 2^53, hence
    representable, so by monotonicity of correct rounding  q <= fl(x) <= c.  The relative error of
    fl is at most 2^-53, so |fl(x) - x| <= x * 2^-53 < 1/i (because a < 2^53), while a non-integer
    x is at distance >= 1/i from both q + 1 and c - 1; hence fl(x) < q + 1 and fl(x) > c - 1.

    No bound on [i] is needed (for i > a the quotient is 0 and the ceiling 1 or 0). *)
From Prtpy Require Import Base.Prelude Model.Multifit Proofs.MultifitProofs.
From Coq Require Import QArith Qround Lqa ZifyBool.
Open Scope Z_scope.

(** smallest integer >= the dyadic value (numpy.ceil on a non-negative double) *)
Definition fceil (x : dyadic) : Z :=
  if 0 <=? snd x then fst x * 2 ^ snd x else cdiv (fst x) (2 ^ (- snd x)).

Lemma fceil_spec x : (inject_Z (fceil x - 1) < dval x)%Q /\ (dval x <= inject_Z (fceil x))%Q.
Proof.
  unfold fceil. destruct (0 <=? snd x) eqn:E.
  - unfold dval. rewrite p2_Z by lia. rewrite <- inject_Z_mult. split; [|apply Qle_refl].
    rewrite <- Zlt_Qlt. lia.
  - set (D := 2 ^ (- snd x)). assert (HD : 0 < D) by (apply pow2_pos; lia).
    pose proof (cdiv_spec (fst x) D HD) as B. set (c := cdiv (fst x) D) in *.
    assert (PD : (0 < inject_Z D)%Q) by (apply inject_Z_pos; exact HD).
    assert (X : (dval x * inject_Z D == inject_Z (fst x))%Q).
    { unfold dval. pose proof (p2_cancel (- snd x) ltac:(lia)) as C.
      replace (- - snd x) with (snd x) in C by lia. fold D in C.
      transitivity (inject_Z (fst x) * (inject_Z D * p2 (snd x)))%Q; [ring|]. rewrite C. ring. }
    split.
    + apply (Qmult_lt_r _ _ (inject_Z D) PD). rewrite X, <- inject_Z_mult, <- Zlt_Qlt. nia.
    + apply (Qcancel_r _ _ (inject_Z D) PD). rewrite X, <- inject_Z_mult, <- Zle_Qle. nia.
Qed.

(** an integer strictly below / at least the value bounds floor and ceiling *)
Lemma ffloor_lt z x : (dval x < inject_Z z)%Q -> ffloor x < z.
Proof.
  intros H. destruct (ffloor_spec x) as [H1 _].
  assert (H3 : (inject_Z (ffloor x) < inject_Z z)%Q) by (eapply Qle_lt_trans; eassumption).
  rewrite <- Zlt_Qlt in H3. exact H3.
Qed.

Lemma fceil_le z x : (dval x <= inject_Z z)%Q -> fceil x <= z.
Proof.
  intros H. destruct (fceil_spec x) as [H1 _].
  assert (H3 : (inject_Z (fceil x - 1) < inject_Z z)%Q) by (eapply Qlt_le_trans; eassumption).
  rewrite <- Zlt_Qlt in H3. lia.
Qed.

Lemma fceil_gt z x : (inject_Z z < dval x)%Q -> z < fceil x.
Proof.
  intros H. destruct (fceil_spec x) as [_ H2].
  assert (H3 : (inject_Z z < inject_Z (fceil x))%Q) by (eapply Qlt_le_trans; eassumption).
  rewrite <- Zlt_Qlt in H3. exact H3.
Qed.

(** the rounded quotient lies in  (ceil - 1, floor + 1)  and in  [floor, ceil] *)
Lemma fl_div_bounds a i : 0 <= a < 2 ^ 53 -> 1 <= i ->
  (inject_Z (a / i) <= dval (rnd53 a i))%Q /\ (dval (rnd53 a i) < inject_Z (a / i + 1))%Q /\
  (inject_Z (cdiv a i - 1) < dval (rnd53 a i))%Q /\ (dval (rnd53 a i) <= inject_Z (cdiv a i))%Q.
Proof.
  intros Ha Hi. assert (Hi0 : 0 < i) by lia.
  set (x := (inject_Z a / inject_Z i)%Q).
  assert (X : (x * inject_Z i == inject_Z a)%Q) by (apply Qdiv_Z_spec; exact Hi0).
  pose proof (rnd53_rounds a i x ltac:(lia) Hi0 X) as (_ & Hlo & Hhi & Elo & Ehi).
  set (r := rnd53 a i) in *.
  pose proof (Z.div_mod a i ltac:(lia)) as Dm. pose proof (Z.mod_pos_bound a i Hi0) as Mb.
  set (q := a / i) in *.
  pose proof (cdiv_spec a i Hi0) as Cb. set (c := cdiv a i) in *.
  assert (PI : (0 < inject_Z i)%Q) by (apply inject_Z_pos; exact Hi0).
  assert (T53 : (0 < inject_Z (2 ^ 53))%Q) by reflexivity.
  assert (Hq : 0 <= q <= 2 ^ 53) by nia.
  assert (Hc : 0 <= c <= 2 ^ 53) by nia.
  split; [|split; [|split]].
  - (* q <= x and q representable *)
    rewrite <- (dval_fof_Z q). apply Hlo; [apply fof_Z_repr; exact Hq|].
    rewrite dval_fof_Z. apply (Qcancel_r _ _ (inject_Z i) PI). rewrite X, <- inject_Z_mult, <- Zle_Qle. nia.
  - (* r * 2^53 * i <= a * (2^53 + 1) < (q + 1) * i * 2^53 *)
    apply (Qmult_lt_r _ _ (inject_Z (2 ^ 53) * inject_Z i)%Q); [nra|].
    assert (E1 : (dval r * inject_Z (2 ^ 53) * inject_Z i <= x * inject_Z (2 ^ 53 + 1) * inject_Z i)%Q)
      by (apply Qmult_le_compat_r; lra).
    assert (E2 : (x * inject_Z (2 ^ 53 + 1) * inject_Z i == inject_Z (a * (2 ^ 53 + 1)))%Q).
    { rewrite inject_Z_mult, <- X. ring. }
    assert (E3 : (inject_Z (a * (2 ^ 53 + 1)) < inject_Z ((q + 1) * (2 ^ 53 * i)))%Q) by (rewrite <- Zlt_Qlt; nia).
    rewrite !inject_Z_mult in E3. rewrite inject_Z_mult in E2. lra.
  - (* (c - 1) * i * 2^53 < a * (2^53 - 1) <= r * 2^53 * i *)
    apply (Qmult_lt_r _ _ (inject_Z (2 ^ 53) * inject_Z i)%Q); [nra|].
    assert (E1 : (x * inject_Z (2 ^ 53 - 1) * inject_Z i <= dval r * inject_Z (2 ^ 53) * inject_Z i)%Q)
      by (apply Qmult_le_compat_r; lra).
    assert (E2 : (x * inject_Z (2 ^ 53 - 1) * inject_Z i == inject_Z (a * (2 ^ 53 - 1)))%Q).
    { rewrite inject_Z_mult, <- X. ring. }
    assert (E3 : (inject_Z ((c - 1) * (2 ^ 53 * i)) < inject_Z (a * (2 ^ 53 - 1)))%Q) by (rewrite <- Zlt_Qlt; nia).
    rewrite !inject_Z_mult in E3. rewrite inject_Z_mult in E2. lra.
  - (* x <= c and c representable *)
    rewrite <- (dval_fof_Z c). apply Hhi; [apply fof_Z_repr; exact Hc|].
    rewrite dval_fof_Z. apply (Qcancel_r _ _ (inject_Z i) PI). rewrite X, <- inject_Z_mult, <- Zle_Qle. nia.
Qed.

(** np.floor(a / i) = a // i *)
Theorem floor_fl_div a i : 0 <= a < 2 ^ 53 -> 1 <= i -> ffloor (rnd53 a i) = a / i.
Proof.
  intros Ha Hi. destruct (fl_div_bounds a i Ha Hi) as (H1 & H2 & _ & _).
  apply ffloor_ge in H1. apply ffloor_lt in H2. lia.
Qed.

(** np.ceil(a / i) = -((-a) // i) *)
Theorem ceil_fl_div a i : 0 <= a < 2 ^ 53 -> 1 <= i -> fceil (rnd53 a i) = cdiv a i.
Proof.
  intros Ha Hi. destruct (fl_div_bounds a i Ha Hi) as (_ & _ & H3 & H4).
  apply fceil_gt in H3. apply fceil_le in H4. lia.
Qed.

(** [fdiv_int] is the model's name for Python's int / int *)
Corollary floor_fdiv_int a i : 0 <= a < 2 ^ 53 -> 1 <= i -> ffloor (fdiv_int a i) = a / i.
Proof. apply floor_fl_div. Qed.
Corollary ceil_fdiv_int a i : 0 <= a < 2 ^ 53 -> 1 <= i -> fceil (fdiv_int a i) = cdiv a i.
Proof. apply ceil_fl_div. Qed.

(** ---- examples ---- *)
Example floor_fl_div_big : ffloor (rnd53 (2 ^ 53 - 1) 3) = 3002399751580330 /\ (2 ^ 53 - 1) / 3 = 3002399751580330.
Proof. vm_compute. split; reflexivity. Qed.
Example ceil_fl_div_big : fceil (rnd53 (2 ^ 53 - 1) 3) = 3002399751580331 /\ cdiv (2 ^ 53 - 1) 3 = 3002399751580331.
Proof. vm_compute. split; reflexivity. Qed.
Example fl_div_10_3 : ffloor (rnd53 10 3) = 3 /\ fceil (rnd53 10 3) = 4.
Proof. vm_compute. split; reflexivity. Qed.
Example fl_div_exact : ffloor (rnd53 12 4) = 3 /\ fceil (rnd53 12 4) = 3.
Proof. vm_compute. split; reflexivity. Qed.
Example fl_div_small : ffloor (rnd53 3 10) = 0 /\ fceil (rnd53 3 10) = 1 /\ fceil (rnd53 0 10) = 0.
Proof. vm_compute. repeat split; reflexivity. Qed.
(** quotient just above 1: the nearest doubles are 1 and 1 + 2^-52 *)
Example fl_div_near_one :
  ffloor (rnd53 (2 ^ 53 - 1) (2 ^ 53 - 2)) = 1 /\ fceil (rnd53 (2 ^ 53 - 1) (2 ^ 53 - 2)) = 2.
Proof. vm_compute. split; reflexivity. Qed.
(** huge divisor: the quotient is tiny but positive, its ceiling is 1 *)
Example fl_div_huge_divisor : ffloor (rnd53 (2 ^ 53 - 1) (2 ^ 60)) = 0 /\ fceil (rnd53 (2 ^ 53 - 1) (2 ^ 60)) = 1.
Proof. vm_compute. split; reflexivity. Qed.

Check fceil_spec.
Check fl_div_bounds.
Check floor_fl_div.
Check ceil_fl_div.

Print Assumptions floor_fl_div.
Print Assumptions ceil_fl_div.
Print Assumptions fl_div_near_one.
