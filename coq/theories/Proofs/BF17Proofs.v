(** The 17/10 bound for best-fit (Johnson, Demers, Ullman, Garey, Graham 1974), by the weight
    function of FF17Proofs.v.

    Main result (b = bins returned by best_fit, n = any number of bins of capacity C into which
    the values can be packed, in particular the optimum):

      bf_ratio_17_strong :  10 * length b <= 17 * n + 9     (BF <= ceil(17/10 OPT))
      bf_ratio_17        :  10 * length b <= 17 * n + 20    (the requested form)

    The invariant [sfit] of first-fit (NO item fits into an earlier bin) is false for best-fit
    (Example [bf_no_sfit_order] in FF17Proofs.v).  But the induction of Lemma [heavy] there only
    ever looks at the FIRST TWO items of a bin, and only when the bin holds no item above C/2.
    For those items best-fit keeps what is needed:
      - [anyfit] (PackingProofs.v): the first item of a bin fits into no earlier bin;
      - [bf2] (BFDRatioProofs.v): the second item y of a bin whose first item x is at most C/2
        fits into no earlier bin (when y was placed its bin held only x; an earlier bin of sum s
        into which y fits has s <= x since best-fit prefers the fullest bin, and C < s + x by
        any-fit, so C < 2 x).
    Both hold at the sums of the time of placement, hence at the final (larger) sums.
    [bf_inv2] establishes Inv /\ bf2 for every input (BFDRatioProofs.v has it for sorted inputs
    only); [heavy2] is Lemma 2 (10 C m <= total weight + 10 C) under anyfit /\ bf2. *)
From Prtpy Require Import Base.Prelude Model.Binner Model.Packing Spec.Partition
  Proofs.BaseLemmas Proofs.BinnerLemmas Proofs.PackingProofs Proofs.FFDRatioProofs
  Proofs.BFDRatioProofs Proofs.FF17Proofs.
From Coq Require Import ZifyBool.

(** ---- 1. best-fit keeps [Inv] and [bf2] on every input ---- *)
Section BFInv2.
  Context {A : Type} (valueof : A -> Z).
  Notation add := (add_to_bin valueof true).

  Lemma bf_inv2 C (items : list A) (b : bins A) :
    items <> [] -> Forall (fun x => 0 <= valueof x) items ->
    best_fit valueof true C items = Ok b -> Inv valueof C b items /\ bf2 valueof C b.
  Proof.
    intros Hne Hnn H. destruct items as [|x t]; [congruence|]. clear Hne.
    unfold best_fit in H. rewrite bf_loop_gloop in H. cbn [gloop] in H.
    destruct (valueof x >? C) eqn:E; [discriminate H|].
    apply Forall_cons_iff in Hnn. destruct Hnn as [Hx Hnn].
    assert (Hfirst : bf_place valueof true C x (new_bins 1) = [add x empty_bin]).
    { apply (af_step_first valueof C x); [lia|]. apply bf_is_step; [exact Hx|].
      unfold nonneg_sums, new_bins, empty_bin. cbn [repeat]. constructor; [cbn [fst]; lia|constructor]. }
    rewrite Hfirst in H. change (x :: t) with ([x] ++ t).
    apply (gloop_inv valueof (bf_place valueof true) C
             (fun b0 acc => Inv valueof C b0 acc /\ bf2 valueof C b0))
      with (b := [add x empty_bin]); [|exact Hnn|exact H|].
    - intros b0 acc x0 Hx0 [HI H2]. pose proof HI as (Hw & _ & _ & _ & Hsn & Ha). split.
      + apply (step_Inv valueof C x0 b0); [exact Hx0| |exact HI]. apply bf_is_step; [lia|exact Hsn].
      + apply bf_place_bf2; auto. lia.
    - split; [apply Inv_first; lia|]. cbn [bf2]. split; constructor.
  Qed.
End BFInv2.

(** ---- 2. Lemma 2 for any-fit /\ bf2 ---- *)
Section Heavy2.
  Context {A : Type} (valueof : A -> Z).

  Notation cw C b := (wsum C (map valueof (contents b))).

  (** the first item of [c] is at least [alpha]; so is the second one unless the first exceeds C/2 *)
  Definition head2_ge (C alpha : Z) (c : bin A) : Prop :=
    match snd c with
    | [] => True
    | x :: r => alpha <= valueof x /\
                match r with [] => True | y :: _ => alpha <= valueof y \/ C < 2 * valueof x end
    end.

  Lemma head2_ge_nonneg C : forall b : bins A,
    Forall (fun y => 0 <= valueof y) (contents b) -> Forall (head2_ge C 0) b.
  Proof.
    induction b as [|c t IH]; intros H; [constructor|].
    rewrite contents_cons in H. apply Forall_app in H. destruct H as [H1 H2].
    constructor; [|apply IH; exact H2]. unfold head2_ge.
    destruct (snd c) as [|x [|y r]]; [exact I| |].
    - apply Forall_cons_iff in H1. destruct H1 as [Hx _]. split; [exact Hx|exact I].
    - apply Forall_cons_iff in H1. destruct H1 as [Hx H1].
      apply Forall_cons_iff in H1. destruct H1 as [Hy _]. split; [exact Hx|left; exact Hy].
  Qed.

  (** passing to the next coarseness *)
  Lemma head2_ge_next C alpha s alpha' (t : bins A) : alpha' = Z.max alpha (C - s) ->
    Forall (head2_ge C alpha) t -> Forall (later_ok valueof C s) t ->
    Forall (later2_ok valueof C s) t -> Forall (head2_ge C alpha') t.
  Proof.
    intros Ea Hh Hl1 Hl2. rewrite Forall_forall in *. intros c Hc.
    specialize (Hh c Hc). specialize (Hl1 c Hc). specialize (Hl2 c Hc).
    unfold head2_ge, later_ok, later2_ok in *.
    destruct (snd c) as [|x [|y r]]; [exact I| |].
    - split; [lia|exact I].
    - destruct Hh as [Hx Hy]. split; [lia|]. destruct Hy as [Hy|Hy]; [|right; exact Hy].
      destruct Hl2 as [Hl2|Hl2]; [left; lia|right; exact Hl2].
  Qed.

  (** bins whose first item exceeds C/2 *)
  Lemma heavy_first_big C (t : bins A) : 0 <= C ->
    Forall (fun y => 0 <= valueof y) (contents t) ->
    Forall (fun c : bin A => match snd c with x :: _ => C < 2 * valueof x | [] => False end) t ->
    10 * C * Z.of_nat (length t) <= cw C t.
  Proof.
    intros HC. induction t as [|c t IH]; intros Hnn Hbig.
    - cbn [length Z.of_nat]. unfold contents, lists. cbn [map concat]. rewrite wsum_nil. lia.
    - apply Forall_cons_iff in Hbig. destruct Hbig as [Hc Hbig].
      rewrite contents_cons in Hnn. apply Forall_app in Hnn. destruct Hnn as [Hn1 Hn2].
      specialize (IH Hn2 Hbig).
      rewrite contents_cons, map_app, wsum_app. cbn [length]. rewrite Nat2Z.inj_succ.
      assert (Hw : 10 * C <= wsum C (map valueof (snd c))).
      { apply wsum_big; [exact HC|rewrite Forall_map; exact Hn1|].
        destruct (snd c) as [|x l]; [contradiction|]. cbn [map]. apply Exists_cons_hd. lia. }
      lia.
  Qed.

  Lemma heavy2 C : 0 <= C -> forall (b : bins A) alpha,
    wf valueof b -> all_nonempty b -> anyfit valueof C b -> bf2 valueof C b ->
    Forall (fun y => 0 <= valueof y) (contents b) ->
    Forall (head2_ge C alpha) b ->
    10 * C * Z.of_nat (length b) <= cw C b + (10 * C - W C alpha).
  Proof.
    intros HC. induction b as [|bn t IH]; intros alpha Hw Hne Haf Hb2 Hnn Hge.
    - cbn [length Z.of_nat]. unfold contents, lists. cbn [map concat]. rewrite wsum_nil.
      pose proof (W_spec C alpha) as Hal. lia.
    - unfold wf in Hw. apply Forall_cons_iff in Hw. destruct Hw as [Hwb Hw].
      unfold all_nonempty in Hne. apply Forall_cons_iff in Hne. destruct Hne as [Hbn Hne].
      apply anyfit_cons in Haf. destruct Haf as [Hl1 Haf].
      cbn [bf2] in Hb2. destruct Hb2 as [Hl2 Hb2].
      rewrite contents_cons in Hnn. apply Forall_app in Hnn. destruct Hnn as [Hnn1 Hnn2].
      apply Forall_cons_iff in Hge. destruct Hge as [Hge1 Hge2].
      rewrite contents_cons, map_app, wsum_app. cbn [length]. rewrite Nat2Z.inj_succ.
      unfold wf_bin in Hwb.
      assert (Hnn1' : Forall (fun a => 0 <= a) (map valueof (snd bn)))
        by (rewrite Forall_map; exact Hnn1).
      set (alpha' := Z.max alpha (C - fst bn)).
      assert (Ha' : alpha <= alpha' /\ C - fst bn <= alpha' /\ (alpha' = alpha \/ alpha' = C - fst bn))
        by (unfold alpha'; lia).
      assert (Hnext : 10 * C * Z.of_nat (length t) <= cw C t + (10 * C - W C alpha')).
      { apply IH; auto. apply (head2_ge_next C alpha (fst bn)); auto. }
      clearbody alpha'.
      pose proof (W_spec C alpha) as Hal. pose proof (W_spec C alpha') as Hal'.
      destruct (Forall_Exists_dec (fun a => 2 * a <= C) (fun a => Z_le_dec (2 * a) C)
                  (map valueof (snd bn))) as [Hnb|Hbig].
      + unfold head2_ge in Hge1.
        destruct (snd bn) as [|x1 [|x2 rest]] eqn:Es; [congruence| |].
        * (* a single item, at most C/2: the first item of every later bin exceeds C/2 *)
          cbn [map] in Hwb, Hnb |- *. rewrite pk_zsum_cons, pk_zsum_nil in Hwb.
          apply Forall_cons_iff in Hnb. destruct Hnb as [Hx1 _].
          destruct Hge1 as [Ha1 _].
          assert (Hlater : 10 * C * Z.of_nat (length t) <= cw C t).
          { apply heavy_first_big; auto. eapply Forall_impl; [|exact Hl1].
            intros c Hc. unfold later_ok in Hc. destruct (snd c) as [|y l]; [exact Hc|lia]. }
          rewrite wsum_cons, wsum_nil. pose proof (W_spec C (valueof x1)) as H1. lia.
        * (* at least two items, all at most C/2 *)
          cbn [map] in Hwb, Hnb, Hnn1' |- *. rewrite !pk_zsum_cons in Hwb.
          apply Forall_cons_iff in Hnb. destruct Hnb as [Hx1 Hnb].
          apply Forall_cons_iff in Hnb. destruct Hnb as [Hx2 Hnb].
          destruct Hge1 as [Ha1 Ha2].
          assert (Ha2' : alpha <= valueof x2) by (destruct Ha2 as [Ha2|Ha2]; [exact Ha2|lia]).
          clear Ha2.
          apply Forall_cons_iff in Hnn1'. destruct Hnn1' as [Hp1 Hnn1'].
          apply Forall_cons_iff in Hnn1'. destruct Hnn1' as [Hp2 Hnnr].
          pose proof (zsum_nonneg _ Hnnr) as Hr0.
          pose proof (wsum_ge_12 C _ Hnb) as Hr12.
          rewrite !wsum_cons.
          pose proof (W_spec C (valueof x1)) as H1. pose proof (W_spec C (valueof x2)) as H2.
          lia.
      + (* an item above C/2 *)
        pose proof (wsum_big C _ HC Hnn1' Hbig) as Hwb10. lia.
  Qed.
End Heavy2.

(** ---- 3. the theorem ---- *)
Section BF17.
  Context {A : Type} (valueof : A -> Z).

  Theorem bf_ratio_17_strong C (items : list A) (b : bins A) (n : nat) :
    items <> [] -> Forall (fun x : A => 0 <= valueof x) items ->
    best_fit valueof true C items = Ok b -> Packable C (map valueof items) n ->
    (10 * length b <= 17 * n + 9)%nat.
  Proof.
    intros Hne Hnn Hbf Hpack.
    destruct (bf_inv2 valueof C items b Hne Hnn Hbf) as [(Hw & Hf & Hp & Hnem & Hns & Ha) Hb2].
    assert (Hnnb : Forall (fun y => 0 <= valueof y) (contents b))
      by (eapply Permutation_Forall; [symmetry; exact Hp|exact Hnn]).
    assert (HC : 0 <= C).
    { destruct b as [|bn t].
      - unfold contents, lists in Hp. cbn [map concat] in Hp.
        apply Permutation_nil in Hp. congruence.
      - unfold feasible in Hf. apply Forall_cons_iff in Hf. destruct Hf as [Hf _].
        unfold nonneg_sums in Hns. apply Forall_cons_iff in Hns. destruct Hns as [Hns _]. lia. }
    assert (Hn : (1 <= n)%nat).
    { destruct n as [|n]; [|lia]. apply packable_zero in Hpack. apply map_eq_nil in Hpack. congruence. }
    destruct (Z.eq_dec C 0) as [E0|Hpos].
    - (* capacity 0: a single bin *)
      destruct (le_lt_dec 2 (length b)) as [Hbig|Hsmall]; [|lia]. exfalso.
      pose proof (anyfit_pairs valueof C 1 b Ha Hw Hnnb) as Hpair.
      assert (H2 : (2 * 1 <= length b)%nat) by lia. specialize (Hpair H2).
      rewrite (wf_total valueof b Hw), (zsum_perm _ _ (Permutation_map valueof Hp)) in Hpair.
      pose proof (packable_total C _ n Hpack) as Htot. subst C. lia.
    - assert (HCpos : 0 < C) by lia.
      pose proof (heavy2 valueof C HC b 0 Hw Hnem Ha Hb2 Hnnb (head2_ge_nonneg valueof C b Hnnb))
        as Hheavy.
      assert (Hlight : wsum C (map valueof items) <= (17 * C - 1) * Z.of_nat n).
      { apply packable_wsum_strict; [exact HCpos| |exact Hpack]. rewrite Forall_map. exact Hnn. }
      rewrite (wsum_perm C _ _ (Permutation_map valueof Hp)) in Hheavy.
      pose proof (W_spec C 0) as HW0.
      assert (Hz : 10 * Z.of_nat (length b) <= 17 * Z.of_nat n + 9) by nia.
      lia.
  Qed.

  (** the requested form *)
  Theorem bf_ratio_17 C (items : list A) (b : bins A) (n : nat) :
    items <> [] -> Forall (fun x : A => 0 <= valueof x) items ->
    best_fit valueof true C items = Ok b -> Packable C (map valueof items) n ->
    (10 * length b <= 17 * n + 20)%nat.
  Proof.
    intros Hne Hnn Hbf Hpack. pose proof (bf_ratio_17_strong C items b n Hne Hnn Hbf Hpack). lia.
  Qed.

  (** against the optimum *)
  Corollary bf_ratio_17_minbins C (items : list A) (b : bins A) (n : nat) :
    items <> [] -> Forall (fun x : A => 0 <= valueof x) items ->
    best_fit valueof true C items = Ok b -> MinBins C (map valueof items) n ->
    (10 * length b <= 17 * n + 9)%nat.
  Proof. intros Hne Hnn Hbf [Hpack _]. apply (bf_ratio_17_strong C items b n); assumption. Qed.
End BF17.

(** the run of FF17Proofs.bf_no_sfit_order: [sfit] fails, [anyfit] and [bf2] are what remains *)
Example bf17_run_example :
  best_fit (fun v : Z => v) true 100 [20; 81; 5; 70; 4] = Ok [(94, [20; 70; 4]); (86, [81; 5])] /\
  wsum 100 [20; 81; 5; 70; 4] = 2368.
Proof. vm_compute. repeat split. Qed.

Print Assumptions bf_ratio_17_strong.
Print Assumptions bf_ratio_17.
Print Assumptions bf_ratio_17_minbins.
