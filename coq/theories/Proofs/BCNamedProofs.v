(** Bin completion on named items (Model/BinCompletionNamed.v): the names are put back on the
    result of the value-level search.
    C07: the named bins project to the value bins ([relabel_values], [bc_named_names]);
    C03: a feasible packing of exactly the non-zero-valued items, every name once, no empty bin
         ([bc_named_packing]);
    C19: ValueError exactly for an oversize item ([bc_named_error_iff]);
    C06: the sums-only run ([bc_named_erase]). *)
From Prtpy Require Import Base.Prelude Model.Binner Model.Packing Model.BinCompletion
  Model.BinCompletionNamed Spec.Partition Proofs.BaseLemmas Proofs.BinnerLemmas Proofs.BCProofs.
From Coq Require Import ZifyBool.

(** ---- examples (vm_compute): items are (name, value) pairs, valueof = snd ---- *)

(** two names of value 3 and two of value 5: the queues are used in input order *)
Example bcn_ex1 :
  bin_completion_named (@snd Z Z) true 10 100 [(1, 3); (2, 7); (3, 3); (4, 0); (5, 5); (6, 5)]
  = Ok [(10, [(2, 7); (1, 3)]); (10, [(5, 5); (6, 5)]); (3, [(3, 3)])].
Proof. vm_compute. reflexivity. Qed.

Example bcn_ex1_values :
  bin_completion true 10 100 [3; 7; 3; 0; 5; 5] = Ok [(10, [7; 3]); (10, [5; 5]); (3, [3])].
Proof. vm_compute. reflexivity. Qed.

Example bcn_ex1_sums :
  bin_completion_named (@snd Z Z) false 10 100 [(1, 3); (2, 7); (3, 3); (4, 0); (5, 5); (6, 5)]
  = Ok [(10, []); (10, []); (3, [])].
Proof. vm_compute. reflexivity. Qed.

Example bcn_ex_oversize :
  bin_completion_named (@snd Z Z) true 10 100 [(1, 3); (2, 11)] = Err ValueError.
Proof. vm_compute. reflexivity. Qed.

(** a value without an unused name is skipped (never happens on a result of the search) *)
Example relabel_ex_skip :
  relabel (@snd Z Z) [(1, 3); (2, 4)] [(7, [3; 4]); (3, [3])] = [(7, [(1, 3); (2, 4)]); (0, [])].
Proof. vm_compute. reflexivity. Qed.

Section NamedProofs.
  Context {A : Type} (valueof : A -> Z).

  (** ---- 1. the pool ---- *)

  (** [take_first v pool] removes the FIRST item of value v *)
  Lemma take_first_spec v : forall pool x pool',
    take_first valueof v pool = Some (x, pool') ->
    exists l1 l2, pool = l1 ++ x :: l2 /\ pool' = l1 ++ l2 /\ valueof x = v /\
                  Forall (fun y => valueof y <> v) l1.
  Proof.
    induction pool as [|y t IH]; intros x pool' H.
    - discriminate H.
    - cbn [take_first] in H. destruct (valueof y =? v) eqn:E.
      + injection H as E1 E2. subst y pool'. exists [], t.
        repeat split; [apply Z.eqb_eq; exact E|constructor].
      + destruct (take_first valueof v t) as [[z t']|] eqn:ET; [|discriminate H].
        injection H as E1 E2. subst z pool'.
        destruct (IH x t' eq_refl) as (l1 & l2 & E1 & E2 & Hv & Hf).
        exists (y :: l1), l2. subst t t'. repeat split; [exact Hv|].
        constructor; [apply Z.eqb_neq; exact E|exact Hf].
  Qed.

  Lemma take_first_perm v pool x pool' :
    take_first valueof v pool = Some (x, pool') -> valueof x = v /\ Permutation (x :: pool') pool.
  Proof.
    intros H. destruct (take_first_spec v pool x pool' H) as (l1 & l2 & E1 & E2 & Hv & _).
    split; [exact Hv|]. subst pool pool'. apply Permutation_middle.
  Qed.

  Lemma take_first_some v : forall pool,
    In v (map valueof pool) -> exists x pool', take_first valueof v pool = Some (x, pool').
  Proof.
    induction pool as [|y t IH]; intros Hin.
    - destruct Hin.
    - cbn [take_first]. destruct (valueof y =? v) eqn:E.
      + exists y, t. reflexivity.
      + cbn [map] in Hin. destruct Hin as [Hin|Hin]; [apply Z.eqb_neq in E; contradiction|].
        destruct (IH Hin) as (x & t' & ET). rewrite ET. exists x, (y :: t'). reflexivity.
  Qed.

  (** ---- 2. one bin ---- *)

  (** if the values wanted are among the values of the pool, every value gets a name of that
      value, each name is used once, and the pool that is left holds the other values *)
  Lemma relabel_list_spec : forall vs pool rest,
    Permutation (vs ++ rest) (map valueof pool) ->
    map valueof (fst (relabel_list valueof vs pool)) = vs /\
    Permutation (fst (relabel_list valueof vs pool) ++ snd (relabel_list valueof vs pool)) pool /\
    Permutation rest (map valueof (snd (relabel_list valueof vs pool))).
  Proof.
    induction vs as [|v t IH]; intros pool rest HP.
    - cbn [relabel_list fst snd map app]. cbn [app] in HP. repeat split; [apply Permutation_refl|exact HP].
    - cbn [relabel_list].
      assert (Hin : In v (map valueof pool)).
      { eapply Permutation_in; [exact HP|]. left. reflexivity. }
      destruct (take_first_some v pool Hin) as (x & pool' & ET). rewrite ET.
      destruct (take_first_perm v pool x pool' ET) as [Hv Hp].
      assert (HP' : Permutation (t ++ rest) (map valueof pool')).
      { apply (Permutation_cons_inv (a := v)). cbn [app] in HP. rewrite HP.
        rewrite <- Hp. cbn [map]. rewrite Hv. apply Permutation_refl. }
      destruct (IH pool' rest HP') as (H1 & H2 & H3).
      destruct (relabel_list valueof t pool') as [xs p]. cbn [fst snd] in *.
      repeat split.
      + cbn [map]. rewrite Hv, H1. reflexivity.
      + cbn [app]. rewrite <- Hp. apply perm_skip. exact H2.
      + exact H3.
  Qed.

  (** a bin filled name by name records the total value of its names *)
  Lemma named_bin_fold xs : forall b : bin A,
    fold_left (fun bb x => add_to_bin valueof true x bb) xs b
    = (fst b + zsum (map valueof xs), snd b ++ xs).
  Proof.
    induction xs as [|x t IH]; intros b.
    - cbn [fold_left map zsum fold_right]. rewrite Z.add_0_r, app_nil_r. destruct b; reflexivity.
    - cbn [fold_left]. rewrite IH. unfold add_to_bin. cbn [fst snd map].
      change (zsum (valueof x :: map valueof t)) with (valueof x + zsum (map valueof t)).
      rewrite <- app_assoc. cbn [app]. f_equal. lia.
  Qed.

  Lemma named_bin_eq xs : named_bin valueof xs = (zsum (map valueof xs), xs).
  Proof. unfold named_bin. rewrite named_bin_fold. reflexivity. Qed.

  (** ---- 3. all bins ---- *)

  Lemma relabel_bins_cons bn t pool :
    relabel_bins valueof (bn :: t) pool
    = named_bin valueof (fst (relabel_list valueof (snd bn) pool))
      :: relabel_bins valueof t (snd (relabel_list valueof (snd bn) pool)).
  Proof. cbn [relabel_bins]. destruct (relabel_list valueof (snd bn) pool) as [xs p]. reflexivity. Qed.

  Lemma relabel_bins_wf : forall vb pool, wf valueof (relabel_bins valueof vb pool).
  Proof.
    induction vb as [|bn t IH]; intros pool.
    - constructor.
    - rewrite relabel_bins_cons. constructor; [|apply IH].
      rewrite named_bin_eq. unfold wf_bin. reflexivity.
  Qed.

  Lemma relabel_bins_length : forall vb pool, length (relabel_bins valueof vb pool) = length vb.
  Proof.
    induction vb as [|bn t IH]; intros pool; [reflexivity|].
    rewrite relabel_bins_cons. cbn [length]. rewrite IH. reflexivity.
  Qed.

  Lemma relabel_bins_spec : forall vb pool rest,
    Permutation (concat (lists vb) ++ rest) (map valueof pool) ->
    map (map valueof) (lists (relabel_bins valueof vb pool)) = lists vb /\
    exists p, Permutation (contents (relabel_bins valueof vb pool) ++ p) pool /\
              Permutation rest (map valueof p).
  Proof.
    induction vb as [|bn t IH]; intros pool rest HP.
    - split; [reflexivity|]. exists pool. split; [apply Permutation_refl|exact HP].
    - rewrite relabel_bins_cons.
      change (lists (bn :: t)) with (snd bn :: lists t) in *. cbn [concat] in HP.
      rewrite <- app_assoc in HP.
      destruct (relabel_list_spec (snd bn) pool (concat (lists t) ++ rest) HP) as (H1 & H2 & H3).
      destruct (IH _ rest H3) as (H4 & p & H5 & H6).
      set (xs := fst (relabel_list valueof (snd bn) pool)) in *.
      set (p1 := snd (relabel_list valueof (snd bn) pool)) in *.
      split.
      + unfold lists at 1. cbn [map]. rewrite named_bin_eq. cbn [snd]. rewrite H1.
        f_equal. exact H4.
      + exists p. split; [|exact H6].
        rewrite contents_cons, named_bin_eq. cbn [snd]. rewrite <- app_assoc.
        rewrite <- H2. apply Permutation_app_head. exact H5.
  Qed.

  (** named bins whose lists of values are the lists of well-formed value bins project to them *)
  Lemma map_bins_of_lists : forall (b : bins A) (vb : bins Z),
    wf valueof b -> wf zid vb -> map (map valueof) (lists b) = lists vb -> map_bins valueof b = vb.
  Proof.
    induction b as [|bn t IH]; intros vb Hb Hvb E.
    - destruct vb; [reflexivity|discriminate E].
    - destruct vb as [|vn vt]; [discriminate E|].
      unfold lists in E. cbn [map] in E. injection E as E1 E2.
      inversion Hb as [|? ? Hbn Ht]; subst. inversion Hvb as [|? ? Hvn Hvt]; subst.
      change (map_bins valueof (bn :: t)) with ((fst bn, map valueof (snd bn)) :: map_bins valueof t).
      assert (Ebn : (fst bn, map valueof (snd bn)) = vn).
      { unfold wf_bin in Hbn, Hvn. rewrite map_zid in Hvn. destruct vn as [s l]. cbn [fst snd] in *.
        rewrite Hbn, E1, Hvn. reflexivity. }
      rewrite Ebn, (IH vt Ht Hvt E2). reflexivity.
  Qed.

  (** ---- 4. relabel: C07 at the level of the renaming ---- *)

  (** if the value bins hold exactly the values of the items, then: the named bins have the same
      lists of values (so the same number of bins), and are the value bins again after projection
      when the recorded value sums are right; every name is used exactly once; the recorded sums
      are the totals. *)
  Theorem relabel_values items vb :
    Permutation (concat (lists vb)) (map valueof items) ->
    lists (map_bins valueof (relabel valueof items vb)) = lists vb /\
    (wf zid vb -> map_bins valueof (relabel valueof items vb) = vb) /\
    Permutation (contents (relabel valueof items vb)) items /\
    wf valueof (relabel valueof items vb).
  Proof.
    intros HP. unfold relabel.
    assert (HP' : Permutation (concat (lists vb) ++ []) (map valueof items)) by (rewrite app_nil_r; exact HP).
    destruct (relabel_bins_spec vb items [] HP') as (H1 & p & H2 & H3).
    apply Permutation_nil in H3. apply map_eq_nil in H3. subst p. rewrite app_nil_r in H2.
    pose proof (relabel_bins_wf vb items) as Hwf.
    assert (HL : lists (map_bins valueof (relabel_bins valueof vb items)) = lists vb).
    { rewrite <- H1. unfold lists, map_bins. rewrite !map_map. reflexivity. }
    repeat split.
    - exact HL.
    - intros Hvb. apply map_bins_of_lists; assumption.
    - exact H2.
    - exact Hwf.
  Qed.

  (** the wf part needs no hypothesis *)
  Lemma relabel_wf items vb : wf valueof (relabel valueof items vb).
  Proof. apply relabel_bins_wf. Qed.

  Lemma relabel_length items vb : length (relabel valueof items vb) = length vb.
  Proof. apply relabel_bins_length. Qed.

  (** ---- 5. the zero filter and the oversize test commute with valueof ---- *)

  Lemma filter_nonzero_map items :
    filter nonzero (map valueof items) = map valueof (filter (nonzero_item valueof) items).
  Proof.
    induction items as [|x t IH]; [reflexivity|].
    cbn [map filter]. unfold nonzero_item at 1. destruct (negb (valueof x =? 0)); cbn [map]; rewrite IH; reflexivity.
  Qed.

  Lemma filter_nonzero_idem (vs : list Z) : filter nonzero (filter nonzero vs) = filter nonzero vs.
  Proof.
    induction vs as [|v t IH]; [reflexivity|].
    cbn [filter]. destruct (negb (v =? 0)) eqn:E; [|exact IH].
    cbn [filter]. rewrite E, IH. reflexivity.
  Qed.

  Lemma existsb_oversize_map C items :
    existsb (fun v => C <? v) (map valueof items) = existsb (fun x => C <? valueof x) items.
  Proof. induction items as [|x t IH]; [reflexivity|]. cbn [map existsb]. rewrite IH. reflexivity. Qed.

  Lemma existsb_filter_false {T} (f g : T -> bool) l : existsb f l = false -> existsb f (filter g l) = false.
  Proof.
    induction l as [|x t IH]; intros H; [reflexivity|].
    cbn [existsb] in H. apply orb_false_iff in H. destruct H as [H1 H2].
    cbn [filter]. destruct (g x); [cbn [existsb]; rewrite H1; apply IH; exact H2|apply IH; exact H2].
  Qed.

  (** the value-level function removes the zeros and refuses oversize values by itself, so running
      it on the values of the non-zero items is running it on the values of all the items *)
  Lemma bc_values_nz keep C fuel items :
    existsb (fun x => C <? valueof x) items = false ->
    bin_completion keep C fuel (map valueof (filter (nonzero_item valueof) items))
    = bin_completion keep C fuel (map valueof items).
  Proof.
    intros Eo. unfold bin_completion.
    rewrite <- filter_nonzero_map, filter_nonzero_idem.
    rewrite existsb_oversize_map, Eo.
    rewrite (existsb_filter_false _ _ _ (eq_trans (existsb_oversize_map C items) Eo)).
    reflexivity.
  Qed.

  Lemma bcn_unfold keep C fuel items :
    bin_completion_named valueof keep C fuel items
    = if existsb (fun x => C <? valueof x) items then Err ValueError
      else match bin_completion keep C fuel (map valueof items) with
           | Err e => Err e
           | Ok vb => Ok (if keep then relabel valueof (filter (nonzero_item valueof) items) vb
                          else map (fun b => (fst b, @nil A)) vb)
           end.
  Proof.
    unfold bin_completion_named. destruct (existsb (fun x => C <? valueof x) items) eqn:Eo; [reflexivity|].
    rewrite (bc_values_nz keep C fuel items Eo). reflexivity.
  Qed.

  (** ---- 6. the main statements ---- *)

  (** what the value-level result is, for values >= 0 *)
  Lemma bcn_value_bins C fuel items vb :
    Forall (fun x => 0 <= valueof x) items ->
    bin_completion true C fuel (map valueof items) = Ok vb ->
    Permutation (concat (lists vb)) (map valueof (filter (nonzero_item valueof) items)) /\
    feasible C vb /\ wf zid vb /\ all_nonempty vb.
  Proof.
    intros Hnn H.
    assert (Hnn' : Forall (fun v => 0 <= v) (map valueof items)).
    { apply Forall_forall. intros v Hv. apply in_map_iff in Hv. destruct Hv as (x & <- & Hx).
      rewrite Forall_forall in Hnn. apply Hnn. exact Hx. }
    destruct (bc_packing_strong C fuel (map valueof items) vb Hnn' H) as [(HP & Hf & Hw) Hne].
    rewrite filter_nonzero_map in HP. repeat split; assumption.
  Qed.

  (** C07: forgetting the names of the result of the named run gives the result of the run on the
      values (same bins, same order of bins, same order inside the bins, same sums); errors are the
      same.  [bin_completion] filters the zeros itself, so the right-hand side takes ALL the values. *)
  Theorem bc_named_names : forall C fuel items,
    Forall (fun x => 0 <= valueof x) items ->
    rmap (map_bins valueof) (bin_completion_named valueof true C fuel items)
    = bin_completion true C fuel (map valueof items).
  Proof.
    intros C fuel items Hnn. rewrite bcn_unfold.
    destruct (existsb (fun x => C <? valueof x) items) eqn:Eo.
    - unfold bin_completion. rewrite existsb_oversize_map, Eo. reflexivity.
    - destruct (bin_completion true C fuel (map valueof items)) as [vb|e] eqn:EV; [|reflexivity].
      cbn [rmap]. f_equal.
      destruct (bcn_value_bins C fuel items vb Hnn EV) as (HP & _ & Hw & _).
      destruct (relabel_values (filter (nonzero_item valueof) items) vb HP) as (_ & Hm & _).
      apply Hm. exact Hw.
  Qed.

  (** C03: a feasible packing of exactly the items of non-zero value (every name once, recorded
      sums are the totals), no empty bin *)
  Theorem bc_named_packing : forall C fuel items b,
    Forall (fun x => 0 <= valueof x) items ->
    bin_completion_named valueof true C fuel items = Ok b ->
    is_packing valueof C (filter (nonzero_item valueof) items) b /\ all_nonempty b.
  Proof.
    intros C fuel items b Hnn H. rewrite bcn_unfold in H.
    destruct (existsb (fun x => C <? valueof x) items); [discriminate H|].
    destruct (bin_completion true C fuel (map valueof items)) as [vb|e] eqn:EV; [|discriminate H].
    injection H as Eb.
    destruct (bcn_value_bins C fuel items vb Hnn EV) as (HP & Hf & Hw & Hne).
    destruct (relabel_values (filter (nonzero_item valueof) items) vb HP) as (_ & Hm & Hperm & Hwf).
    specialize (Hm Hw). rewrite Eb in Hm, Hperm, Hwf.
    unfold is_packing. repeat split; [exact Hperm| |exact Hwf|].
    - unfold feasible in *. rewrite <- Hm in Hf. unfold map_bins in Hf. rewrite Forall_map in Hf. exact Hf.
    - unfold all_nonempty in *. rewrite <- Hm in Hne. unfold map_bins in Hne. rewrite Forall_map in Hne.
      eapply Forall_impl; [|exact Hne]. intros bn Hbn E. apply Hbn. cbn [snd]. rewrite E. reflexivity.
  Qed.

  (** the number of bins is the number of bins of the value-level run (no hypothesis on signs) *)
  Theorem bc_named_numbins : forall keep C fuel items,
    rmap (@length _) (bin_completion_named valueof keep C fuel items)
    = rmap (@length _) (bin_completion keep C fuel (map valueof items)).
  Proof.
    intros keep C fuel items. rewrite bcn_unfold.
    destruct (existsb (fun x => C <? valueof x) items) eqn:Eo.
    - unfold bin_completion. rewrite existsb_oversize_map, Eo. reflexivity.
    - destruct (bin_completion keep C fuel (map valueof items)) as [vb|e]; [|reflexivity].
      cbn [rmap]. f_equal. destruct keep; [apply relabel_length|apply map_length].
  Qed.

  (** C19: ValueError exactly when some item is worth more than the capacity *)
  Theorem bc_named_error_iff : forall keep C fuel items,
    bin_completion_named valueof keep C fuel items = Err ValueError <->
    Exists (fun x => C < valueof x) items.
  Proof.
    intros keep C fuel items. rewrite bcn_unfold.
    assert (HE : existsb (fun x => C <? valueof x) items = true <-> Exists (fun x => C < valueof x) items).
    { rewrite existsb_exists, Exists_exists. split; intros (x & Hx & Hlt); exists x; (split; [exact Hx|lia]). }
    destruct (existsb (fun x => C <? valueof x) items) eqn:Eo.
    - split; [intros _; apply HE; reflexivity|reflexivity].
    - split.
      + intros H. destruct (bin_completion keep C fuel (map valueof items)) as [vb|e] eqn:EV; [discriminate H|].
        injection H as ->. apply bc_error_iff in EV. apply Exists_exists in EV.
        destruct EV as (v & Hv & Hlt). apply in_map_iff in Hv. destruct Hv as (x & <- & Hx).
        apply Exists_exists. exists x. split; assumption.
      + intros H. apply HE in H. discriminate H.
  Qed.

  (** the only other error is lack of fuel *)
  Theorem bc_named_error_kinds : forall keep C fuel items e,
    bin_completion_named valueof keep C fuel items = Err e -> e = ValueError \/ e = OtherError.
  Proof.
    intros keep C fuel items e H. rewrite bcn_unfold in H.
    destruct (existsb (fun x => C <? valueof x) items); [injection H as <-; left; reflexivity|].
    destruct (bin_completion keep C fuel (map valueof items)) as [vb|e'] eqn:EV; [discriminate H|].
    injection H as ->. apply bc_error_kinds in EV. destruct EV as [[-> _]|[-> _]]; [left|right]; reflexivity.
  Qed.

  (** C06: the sums-only run returns the sums of the run that keeps the names *)
  Theorem bc_named_erase : forall C fuel items,
    Forall (fun x => 0 <= valueof x) items ->
    rmap erase (bin_completion_named valueof true C fuel items)
    = bin_completion_named valueof false C fuel items.
  Proof.
    intros C fuel items Hnn. rewrite !bcn_unfold.
    destruct (existsb (fun x => C <? valueof x) items); [reflexivity|].
    rewrite <- (bc_erase C fuel (map valueof items)).
    destruct (bin_completion true C fuel (map valueof items)) as [vb|e] eqn:EV; [|reflexivity].
    cbn [rmap]. f_equal.
    destruct (bcn_value_bins C fuel items vb Hnn EV) as (HP & _ & Hw & _).
    destruct (relabel_values (filter (nonzero_item valueof) items) vb HP) as (_ & Hm & _).
    specialize (Hm Hw). rewrite <- Hm at 2.
    unfold erase, map_bins. rewrite !map_map. reflexivity.
  Qed.
End NamedProofs.

(** the queues are used in input order: among the names of one value, an earlier name lands in an
    earlier place (an instance; the general fact is [take_first_spec]: the name taken is the first
    of its value in the pool) *)
Example bcn_ex_order :
  rmap (@contents _) (bin_completion_named (@snd Z Z) true 10 100 [(1, 5); (2, 5); (3, 5); (4, 5); (5, 2)])
  = Ok [(1, 5); (2, 5); (3, 5); (4, 5); (5, 2)].
Proof. vm_compute. reflexivity. Qed.

(* OPEN / remarks:
   - [bc_named_names], [bc_named_packing], [bc_named_erase] assume values >= 0.  The hypothesis is
     inherited from [bc_packing_strong] (it gives "the value bins hold exactly the values", which
     [relabel_values] needs); a vm_compute comparison on 150 random inputs with negative values found
     no difference, so it is what the proof needs, not a known necessity.  [bc_named_numbins],
     [bc_named_error_iff], [bc_named_error_kinds] need no hypothesis.
   - [relabel_values]: the projection equality [map_bins valueof (relabel ...) = vb] needs [wf zid vb]
     (the named sums are recomputed from 0 by add_item_to_bin, so they equal the value-level sums only
     when those are the totals); the equality of the lists of values needs nothing more than the
     multiset hypothesis.
   - validation against the Python code: /root/scratch/rnpbc/validate_named.py, 330 random inputs
     (dict with string keys, dict with integer keys, names + valueof, plain numbers; repeated values,
     zeros, oversize items; both bins-managers), 0 mismatches (bins compared exactly, in order). *)

Check @relabel_values.
Check @bc_named_names.
Check @bc_named_packing.
Check @bc_named_numbins.
Check @bc_named_error_iff.
Check @bc_named_error_kinds.
Check @bc_named_erase.

Print Assumptions relabel_values.
Print Assumptions bc_named_names.
Print Assumptions bc_named_packing.
Print Assumptions bc_named_numbins.
Print Assumptions bc_named_error_iff.
Print Assumptions bc_named_error_kinds.
Print Assumptions bc_named_erase.
