(** Lemmas about the pure bins-array operations (Model/Binner.v). *)
From Prtpy Require Import Base.Prelude Model.Binner Proofs.BaseLemmas.
From Coq Require Import Sorting.Sorted.

Section BinnerLemmas.
  Context {A : Type} (valueof : A -> Z).

  Lemma new_bins_length k : length (@new_bins A k) = k.
  Proof. apply repeat_length. Qed.

  Lemma new_bins_wf k : wf valueof (@new_bins A k).
  Proof. unfold wf, new_bins. induction k; simpl; constructor; auto. reflexivity. Qed.

  Lemma new_bins_contents k : contents (@new_bins A k) = [].
  Proof. unfold contents, lists, new_bins. induction k; simpl; auto. Qed.

  Lemma new_bins_sums k : sums (@new_bins A k) = repeat 0 k.
  Proof. unfold sums, new_bins. induction k; simpl; f_equal; auto. Qed.

  Lemma add_to_bin_wf keep x b : keep = true -> wf_bin valueof b -> wf_bin valueof (add_to_bin valueof keep x b).
  Proof.
    intros -> H. unfold wf_bin, add_to_bin in *. simpl. rewrite map_app, zsum_app. simpl. lia.
  Qed.

  Lemma add_item_length keep b x i : length (add_item valueof keep b x i) = length b.
  Proof. apply update_length. Qed.

  Lemma add_item_sums keep b x i :
    sums (add_item valueof keep b x i) = update i (fun s => s + valueof x) (sums b).
  Proof. unfold sums, add_item. apply map_update. reflexivity. Qed.

  Lemma add_item_wf b x i : wf valueof b -> wf valueof (add_item valueof true b x i).
  Proof.
    unfold wf, add_item. revert i. induction b as [|bn t IH]; intros [|j] H; simpl; auto;
      inversion H; subst; constructor; auto. apply add_to_bin_wf; auto.
  Qed.

  Lemma contents_app (b1 b2 : bins A) : contents (b1 ++ b2) = contents b1 ++ contents b2.
  Proof. unfold contents, lists. rewrite map_app, concat_app. reflexivity. Qed.

  Lemma contents_cons (bn : bin A) b : contents (bn :: b) = snd bn ++ contents b.
  Proof. reflexivity. Qed.

  Lemma add_item_contents b x i : (i < length b)%nat ->
    Permutation (contents (add_item valueof true b x i)) (x :: contents b).
  Proof.
    unfold add_item. revert i. induction b as [|bn t IH]; intros [|j] H; simpl in *; try lia.
    - rewrite !contents_cons. simpl. rewrite <- app_assoc. simpl.
      symmetry. apply Permutation_middle.
    - rewrite !contents_cons. rewrite IH by lia. symmetry. apply Permutation_middle.
  Qed.

  Lemma add_item_contents_nokeep b x i : contents (add_item valueof false b x i) = contents b.
  Proof.
    unfold add_item. revert i. induction b as [|bn t IH]; intros [|j]; simpl; auto.
    rewrite !contents_cons. rewrite IH. reflexivity.
  Qed.

  Lemma sort_bins_perm (b : bins A) : Permutation (sort_bins b) b.
  Proof. apply sort_asc_perm. Qed.

  Lemma sort_bins_length (b : bins A) : length (sort_bins b) = length b.
  Proof. apply sort_asc_length. Qed.

  Lemma wf_perm (b1 b2 : bins A) : Permutation b1 b2 -> wf valueof b1 -> wf valueof b2.
  Proof. intros P H. eapply Permutation_Forall; eauto. Qed.

  Lemma sort_bins_wf (b : bins A) : wf valueof b -> wf valueof (sort_bins b).
  Proof. apply wf_perm. symmetry. apply sort_bins_perm. Qed.

  Lemma contents_perm (b1 b2 : bins A) : Permutation b1 b2 -> Permutation (contents b1) (contents b2).
  Proof.
    induction 1; simpl; auto.
    - rewrite !contents_cons. apply Permutation_app_head; auto.
    - rewrite !contents_cons. rewrite !app_assoc. apply Permutation_app_tail. apply Permutation_app_comm.
    - etransitivity; eauto.
  Qed.

  Lemma sort_bins_contents (b : bins A) : Permutation (contents (sort_bins b)) (contents b).
  Proof. apply contents_perm, sort_bins_perm. Qed.

  Lemma sort_bins_sums_perm (b : bins A) : Permutation (sums (sort_bins b)) (sums b).
  Proof. apply Permutation_map, sort_bins_perm. Qed.

  Lemma sort_bins_sorted (b : bins A) : StronglySorted Z.le (sums (sort_bins b)).
  Proof.
    pose proof (sort_asc_sorted (@fst Z (list A)) b) as H. unfold sort_bins, key_sorted, sums in *.
    induction H; simpl; constructor; auto. rewrite Forall_map. auto.
  Qed.

  Lemma combine_bin_wf (b1 b2 : bin A) : wf_bin valueof b1 -> wf_bin valueof b2 -> wf_bin valueof (combine_bin b1 b2).
  Proof. unfold wf_bin, combine_bin. simpl. intros -> ->. rewrite map_app, zsum_app. reflexivity. Qed.

  (** the recorded sums add up to the total value of the contents *)
  Lemma wf_total (b : bins A) : wf valueof b -> zsum (sums b) = zsum (map valueof (contents b)).
  Proof.
    induction 1 as [|bn t Hb Ht IH]; simpl; auto.
    rewrite contents_cons, map_app, zsum_app. unfold wf_bin in Hb. rewrite <- Hb, IH. reflexivity.
  Qed.

  Lemma erase_sums (b : bins A) : sums (erase b) = sums b.
  Proof. unfold sums, erase. rewrite map_map. reflexivity. Qed.

  Lemma erase_length (b : bins A) : length (erase b) = length b.
  Proof. apply map_length. Qed.
End BinnerLemmas.
