(** Rungs 2 and 1 towards FF, BF <= floor(17/10 OPT) (Dosa and Sgall), continuing FF17FloorProofs.v.
    b = bins returned, m = length b, n = any number of bins of capacity C into which the values
    can be packed (in particular the optimum).

    PROVED, for first_fit and best_fit alike (items <> [], values >= 0):
      *_ratio_17_2_uncond_partial      10 m <= 17 n + 2            unconditionally
      *_ratio_17_floor_rung2_partial   10 m <= 17 n  for every n that is not 4 or 7 mod 10
      *_ratio_17_res1_partial          10 m <= 17 n  for n = 1 mod 10 (goal (1))
      *_half_full_1_partial            10 m <= 17 n + 1            if every bin is more than half full
      *_ratio_17_1_nms_partial         10 m <= 17 n + 1            if no bin is a single item a with
                                                                   C/3 < a <= C/2
      *_ratio_17_floor_nms1_partial    10 m <= 17 n  for n <> 7 mod 10, no such single item
      *_half_full_beta_sharp_partial   10 m <= 17 n  if every bin is more than half full and fewer
                                       than n values exceed C/2
      *_nms_beta_sharp_partial         10 m <= 17 n  if no such single item and fewer than n values
                                       exceed C/2 (every n)
      pure_problem_partial             the "pure problem" of FF17FloorProofs.v: 10 k <= 7 n + 1
                                       when the last bin is filled to l, 4C/7 <= l <= 2C/3
    OPEN: n = 4 mod 10 when some bin is a single item a with C/3 < a <= C/2 and n values exceed
    C/2; n = 7 mod 10 (see the end of the file).

    The new tool is a one-parameter family of weight functions.  With M = 3 L (12C/7 <= M <= 2C,
    L = M/3 is the sum of the exceptional bin) and "weight 1" = 10 M:
       WM(a) = 24 a + bonM(a),  bonM(a) = 0                   if 12 a <= 12 C - 5 M
                                        = 12 a - 12 C + 5 M   if 12 C - 5 M <= 12 a and 6 a <= M
                                        = 7 M - 12 C          if M <= 6 a and 2 a <= C
                                        = 10 M - 12 C         if C < 2 a.
    For M = 2C this is twice the weight W2 of Dosa and Sgall (slope 12, bonus from C/6 to C/3, "1" = 10 C);
    in general the slope is 0.8 C / L per unit, so that a bin filled to L weighs 8/10 (deficit
    2/10) and the bonus grows from C - 5L/4 to L/2, where it reaches 0.7 - 0.4 C / L; for
    M = 12C/7 (L = 4C/7) the bonus vanishes and the weight is 1.4 * size (+ 0.3 above C/2).
    - a feasible bin weighs at most 17 M ([light_binM]), at most 15 M without a value above C/2
      ([wsumM_nobig], via M * bonus <= (42 M - 72 C) * size);
    - the amortisation "the bonus of the first two items of the next bin pays for the free
      space" works for every bin whose free space is at most M/6 = L/2, or whose sum is at most
      L ([heavyM], potential [PhiM]); a bin that is less than 2/3 full has both properties
      relative to its own sum l (the earlier bins are filled above C - l/2 since its two first
      items did not fit, the later ones hold two items above C - l), so L = l works and the
      deficit drops from 10 - 12 l / C < 4 (FF17FloorProofs.v) to 2;
    - below 4C/7 the sizes decide ([low_exceptional_core]): every other bin without a value
      above C/2 is filled above C - l/2 > 5C/7.
    [heavy_choiceM] picks the bin that carries the deficit; [medium_core2_gen] redoes the case
    analysis of [medium_core3_gen] (a bin {a}, C/3 < a <= C/2) with these weights.
    The bound 10 k <= 7 n + 1 of the pure problem is what weights can give: the linear programme
    over all weight functions and potentials (scripts in /root/scratch/ff17pure/: wlp.py, wlp0.py)
    has value 0.2 for 4C/7 <= l < 2C/3, so 10 k <= 7 n needs an integrality (parity) argument. *)
From Prtpy Require Import Base.Prelude Model.Binner Model.Packing Spec.Partition
  Proofs.BaseLemmas Proofs.BinnerLemmas Proofs.PackingProofs Proofs.FFDRatioProofs
  Proofs.BFDRatioProofs Proofs.BCOptimalProofs Proofs.FF17Proofs Proofs.BF17Proofs
  Proofs.FF17SharpProofs Proofs.FF17FloorProofs.
From Coq Require Import ZifyBool.

(** ---- 1. the weight functions ---- *)
Definition bonM (C M a : Z) : Z :=
  if 12 * a <=? 12 * C - 5 * M then 0
  else if 6 * a <=? M then 12 * a - 12 * C + 5 * M
  else if 2 * a <=? C then 7 * M - 12 * C
  else 10 * M - 12 * C.

Definition WM (C M a : Z) : Z := 24 * a + bonM C M a.

Notation wsumM C M := (fsum (WM C M)).

(** M = 2 C gives twice the weights W2 of Dosa and Sgall *)
Example WM_examples :
  map (WM 60 120) [0; 5; 10; 11; 20; 21; 30; 31; 60] = map (fun a => 2 * W2 60 a) [0; 5; 10; 11; 20; 21; 30; 31; 60] /\
  map (WM 60 108) [0; 15; 16; 18; 19; 30; 31] = [0; 360; 396; 468; 492; 756; 1104].
Proof. vm_compute. split; reflexivity. Qed.

Lemma bonM_spec C M a :
  (12 * a <= 12 * C - 5 * M /\ bonM C M a = 0) \/
  (12 * C - 5 * M < 12 * a /\ 6 * a <= M /\ bonM C M a = 12 * a - 12 * C + 5 * M) \/
  (M < 6 * a /\ 12 * C - 5 * M < 12 * a /\ 2 * a <= C /\ bonM C M a = 7 * M - 12 * C) \/
  (C < 2 * a /\ M < 6 * a /\ 12 * C - 5 * M < 12 * a /\ bonM C M a = 10 * M - 12 * C).
Proof.
  unfold bonM. destruct (12 * a <=? 12 * C - 5 * M) eqn:E1; [left; lia|].
  destruct (6 * a <=? M) eqn:E2; [right; left; lia|].
  destruct (2 * a <=? C) eqn:E3; [right; right; left; lia|].
  right; right; right; lia.
Qed.

Lemma bonM_nonneg C M a : 0 <= M -> 12 * C <= 7 * M -> 0 <= bonM C M a.
Proof. intros HM H7. pose proof (bonM_spec C M a). lia. Qed.

Lemma bonM_mono C M a a' : 0 <= M -> 12 * C <= 7 * M -> a <= a' -> bonM C M a <= bonM C M a'.
Proof. intros HM H7 H. pose proof (bonM_spec C M a). pose proof (bonM_spec C M a'). lia. Qed.

Lemma wsumM_ge_24 C M l : 0 <= M -> 12 * C <= 7 * M -> 24 * zsum l <= wsumM C M l.
Proof.
  intros HM H7. induction l as [|a l IH]; [rewrite fsum_nil, pk_zsum_nil; lia|].
  rewrite fsum_cons, pk_zsum_cons. unfold WM at 1. pose proof (bonM_nonneg C M a HM H7). lia.
Qed.

(** values summing to less than C/2 *)
Lemma wsumM_small C M l : 0 <= C -> 0 <= M -> 12 * C <= 7 * M -> M <= 2 * C ->
  Forall (fun a => 0 <= a) l -> 2 * zsum l < C ->
  wsumM C M l <= 24 * zsum l + Z.max 0 (Z.min (7 * M - 12 * C) (12 * zsum l - 12 * C + 5 * M)).
Proof.
  intros HC HM H7 H2 Hnn. induction Hnn as [|a l Ha Hl IH]; intros HS.
  - rewrite fsum_nil, pk_zsum_nil. lia.
  - rewrite pk_zsum_cons in HS. rewrite fsum_cons, pk_zsum_cons.
    pose proof (zsum_nonneg l Hl) as H0. assert (HS' : 2 * zsum l < C) by lia.
    specialize (IH HS'). unfold WM at 1. pose proof (bonM_spec C M a) as Hb. lia.
Qed.

(** values up to C/2, any sum: at most two bonuses count fully *)
Definition FbM (C M S : Z) : Z :=
  Z.max (Z.max 0 (Z.min (7 * M - 12 * C) (12 * S - 12 * C + 5 * M))) (12 * S - 24 * C + 10 * M).

Lemma wsumM_nobig_Fb C M l : 0 <= C -> 0 <= M -> 12 * C <= 7 * M -> M <= 2 * C ->
  Forall (fun a => 0 <= a) l -> Forall (fun a => 2 * a <= C) l ->
  wsumM C M l <= 24 * zsum l + FbM C M (zsum l).
Proof.
  intros HC HM H7 H2 Hnn. induction Hnn as [|a l Ha Hl IH]; intros Hnb.
  - rewrite fsum_nil, pk_zsum_nil. unfold FbM. lia.
  - apply Forall_cons_iff in Hnb. destruct Hnb as [Ha2 Hnb]. specialize (IH Hnb).
    rewrite fsum_cons, pk_zsum_cons. pose proof (zsum_nonneg l Hl) as H0.
    unfold WM at 1. pose proof (bonM_spec C M a) as Hb. unfold FbM in *. lia.
Qed.

(** a list containing a value above C/2 *)
Lemma wsumM_big C M l : 0 <= C -> 0 <= M -> 12 * C <= 7 * M -> M <= 2 * C ->
  Forall (fun a => 0 <= a) l ->
  Exists (fun a => ~ 2 * a <= C) l -> 24 * zsum l + 10 * M - 12 * C <= wsumM C M l.
Proof.
  intros HC HM H7 H2 Hnn H. induction H as [a l Ha|a l Hl IH].
  - rewrite fsum_cons, pk_zsum_cons. pose proof (wsumM_ge_24 C M l HM H7).
    unfold WM at 1. pose proof (bonM_spec C M a) as Hb. lia.
  - apply Forall_cons_iff in Hnn. destruct Hnn as [Ha0 Hl0].
    rewrite fsum_cons, pk_zsum_cons. specialize (IH Hl0).
    unfold WM at 1. pose proof (bonM_nonneg C M a HM H7). lia.
Qed.

(** values up to C/2: M * bonus <= (42 M - 72 C) * size *)
Lemma bonM_ratio C M a : 0 <= a -> 2 * a <= C -> 0 <= M -> 12 * C <= 7 * M -> 5 * M <= 12 * C ->
  M * bonM C M a <= (42 * M - 72 * C) * a.
Proof.
  intros Ha H2 HM H7 H5. pose proof (bonM_spec C M a) as Hb.
  destruct Hb as [[_ E]|[(Hlo & Hhi & E)|[(Hlo & _ & _ & E)|(Hbig & _)]]]; [| | |lia]; rewrite E.
  - assert (0 <= (42 * M - 72 * C) * a) by (apply Z.mul_nonneg_nonneg; lia). lia.
  - assert (0 <= (12 * C - 5 * M) * (M - 6 * a)) by (apply Z.mul_nonneg_nonneg; lia). lia.
  - assert (0 <= (7 * M - 12 * C) * (6 * a - M)) by (apply Z.mul_nonneg_nonneg; lia). lia.
Qed.

Lemma wsumM_nobig C M l : 0 <= C -> 0 < M -> 12 * C <= 7 * M -> M <= 2 * C ->
  Forall (fun a => 0 <= a) l -> Forall (fun a => 2 * a <= C) l -> zsum l <= C ->
  wsumM C M l <= 15 * M.
Proof.
  intros HC HM H7 H2 Hnn Hnb HS.
  assert (H5 : 5 * M <= 12 * C) by lia.
  assert (Hkey : M * wsumM C M l <= (66 * M - 72 * C) * zsum l).
  { clear HS. induction Hnn as [|a l Ha Hl IH]; [rewrite fsum_nil, pk_zsum_nil; lia|].
    apply Forall_cons_iff in Hnb. destruct Hnb as [Ha2 Hnb]. specialize (IH Hnb).
    rewrite fsum_cons, pk_zsum_cons. unfold WM at 1.
    pose proof (bonM_ratio C M a Ha Ha2 ltac:(lia) H7 H5). lia. }
  pose proof (zsum_nonneg l Hnn) as H0.
  assert (H1 : (66 * M - 72 * C) * zsum l <= (66 * M - 72 * C) * C)
    by (apply Z.mul_le_mono_nonneg_l; lia).
  assert (H3 : 0 <= (2 * C - M) * (12 * C - 5 * M)) by (apply Z.mul_nonneg_nonneg; lia).
  assert (H4 : M * wsumM C M l <= M * (15 * M)) by lia.
  apply Z.mul_le_mono_pos_l in H4; lia.
Qed.

(** a feasible bin weighs at most 17 M *)
Lemma light_binM C M l : 0 <= C -> 0 < M -> 12 * C <= 7 * M -> M <= 2 * C ->
  Forall (fun a => 0 <= a) l -> zsum l <= C -> wsumM C M l <= 17 * M.
Proof.
  intros HC HM H7 H2 Hnn HS. pose proof (zsum_nonneg l Hnn) as H0.
  destruct (Forall_Exists_dec (fun a => 2 * a <= C) (fun a => Z_le_dec (2 * a) C) l) as [Hnb|Hbig].
  - pose proof (wsumM_nobig C M l HC HM H7 H2 Hnn Hnb HS). lia.
  - apply Exists_exists in Hbig. destruct Hbig as (x & Hin & Hx).
    apply in_split in Hin. destruct Hin as (l1 & l2 & E). subst l.
    assert (P : Permutation (l1 ++ x :: l2) (x :: l1 ++ l2)) by (symmetry; apply Permutation_middle).
    rewrite (fsum_perm _ _ _ P), fsum_cons. rewrite (zsum_perm _ _ P), pk_zsum_cons in HS.
    assert (Hnn' : Forall (fun a => 0 <= a) (l1 ++ l2)).
    { apply Forall_app in Hnn. destruct Hnn as [H1 H3]. apply Forall_cons_iff in H3.
      destruct H3 as [_ H3]. apply Forall_app. split; assumption. }
    pose proof (zsum_nonneg _ Hnn') as H0'.
    assert (HS' : 2 * zsum (l1 ++ l2) < C) by lia.
    pose proof (wsumM_small C M (l1 ++ l2) HC ltac:(lia) H7 H2 Hnn' HS') as Hw.
    unfold WM at 1. pose proof (bonM_spec C M x) as Hb. lia.
Qed.

(** WM minus 2 M for every value above C/2: at most 15 M on a feasible bin *)
Definition WMb (C M a : Z) : Z := WM C M a - 2 * M * bigw C a.

Lemma fsum_WMb C M l : fsum (WMb C M) l = wsumM C M l - 2 * M * fsum (bigw C) l.
Proof.
  induction l as [|a l IH]; [rewrite !fsum_nil; lia|].
  rewrite !fsum_cons, IH. unfold WMb. lia.
Qed.

Lemma light_binMb C M l : 0 <= C -> 0 < M -> 12 * C <= 7 * M -> M <= 2 * C ->
  Forall (fun a => 0 <= a) l -> zsum l <= C -> fsum (WMb C M) l <= 15 * M.
Proof.
  intros HC HM H7 H2 Hnn HS. rewrite fsum_WMb.
  destruct (Forall_Exists_dec (fun a => 2 * a <= C) (fun a => Z_le_dec (2 * a) C) l) as [Hnb|Hbig].
  - pose proof (wsumM_nobig C M l HC HM H7 H2 Hnn Hnb HS). pose proof (fsum_bigw_nonneg C l) as Hb.
    assert (0 <= 2 * M * fsum (bigw C) l) by (apply Z.mul_nonneg_nonneg; lia). lia.
  - pose proof (light_binM C M l HC HM H7 H2 Hnn HS). pose proof (fsum_bigw_pos C l Hbig) as Hb.
    assert (2 * M * 1 <= 2 * M * fsum (bigw C) l) by (apply Z.mul_le_mono_nonneg_l; lia). lia.
Qed.

(** total weight at most 15 M n + 2 M (number of values above C/2) *)
Lemma packable_wsumMb C M vs n : 0 <= C -> 0 < M -> 12 * C <= 7 * M -> M <= 2 * C ->
  Forall (fun a => 0 <= a) vs -> Packable C vs n ->
  wsumM C M vs <= 15 * M * Z.of_nat n + 2 * M * fsum (bigw C) vs.
Proof.
  intros HC HM H7 H2 Hnn Hp.
  assert (H : fsum (WMb C M) vs <= 15 * M * Z.of_nat n).
  { apply (packable_fsum (WMb C M) C); auto. intros g Hg Hs. apply light_binMb; auto. }
  rewrite fsum_WMb in H. lia.
Qed.

(** ---- 2. the amortised analysis with the weights WM ----
    [l0] is a lower bound for the sum of the last bin without a value above C/2; the excess of
    a bin of sum s holding a value above C/2 is 24 s - 12 C. *)
Definition PhiM (C M l0 alpha : Z) : Z :=
  10 * M - Z.max (24 * l0) (48 * alpha) - 2 * bonM C M alpha.

Lemma PhiM_mono C M l0 a a' : 0 <= M -> 12 * C <= 7 * M -> a <= a' -> PhiM C M l0 a' <= PhiM C M l0 a.
Proof. intros HM H7 H. unfold PhiM. pose proof (bonM_mono C M a a' HM H7 H). lia. Qed.

Section HeavyM.
  Context {A : Type} (valueof : A -> Z).

  Notation cwM C M b := (wsumM C M (map valueof (contents b))).

  Fixpoint xsM (C : Z) (b : bins A) : Z :=
    match b with
    | [] => 0
    | c :: t => (if bigb valueof C c then 24 * fst c - 12 * C else 0) + xsM C t
    end.

  Lemma xsM_app C (b1 b2 : bins A) : xsM C (b1 ++ b2) = xsM C b1 + xsM C b2.
  Proof. induction b1 as [|c t IH]; cbn [app xsM]; [lia|]. rewrite IH. lia. Qed.

  Lemma xsM_nonneg C (b : bins A) : half_full C b -> 0 <= xsM C b.
  Proof.
    intros H. induction H as [|c t Hc Ht IH]; cbn [xsM]; [lia|]. destruct (bigb valueof C c); lia.
  Qed.

  Lemma xsM_ge_in C (b : bins A) c : half_full C b -> In c b -> bigb valueof C c = true ->
    24 * fst c - 12 * C <= xsM C b.
  Proof.
    intros H Hin Hb. apply in_split in Hin. destruct Hin as (l1 & l2 & E). subst b.
    unfold half_full in H. apply Forall_app in H. destruct H as [H1 H2].
    apply Forall_cons_iff in H2. destruct H2 as [_ H2].
    rewrite xsM_app. cbn [xsM]. rewrite Hb.
    pose proof (xsM_nonneg C l1 H1). pose proof (xsM_nonneg C l2 H2). lia.
  Qed.

  (** the bins without a value above C/2: free space at most M/6 (= L/2), or sum at most M/3
      (= L) when l0 is not much larger than M/3 *)
  Definition okM (C M l0 : Z) (b : bins A) : Prop :=
    Forall (fun bn : bin A => nobig valueof C bn ->
              6 * (C - fst bn) <= M \/ (3 * fst bn <= M /\ 6 * l0 + M <= 6 * C + 12)) b.

  Lemma allbig_heavyM C M (t : bins A) : 0 <= C -> 0 <= M -> 12 * C <= 7 * M -> M <= 2 * C ->
    wf valueof t -> Forall (fun y => 0 <= valueof y) (contents t) -> Forall (hasbig valueof C) t ->
    10 * M * Z.of_nat (length t) + xsM C t <= cwM C M t.
  Proof.
    intros HC HM H7 H2. induction t as [|c t IH]; intros Hw Hnn Hb.
    - cbn [length Z.of_nat xsM]. unfold contents, lists. cbn [map concat]. rewrite fsum_nil. lia.
    - apply Forall_cons_iff in Hb. destruct Hb as [Hc Hb].
      unfold wf in Hw. apply Forall_cons_iff in Hw. destruct Hw as [Hwc Hw].
      rewrite contents_cons in Hnn. apply Forall_app in Hnn. destruct Hnn as [Hn1 Hn2].
      specialize (IH Hw Hn2 Hb).
      rewrite contents_cons, map_app, fsum_app. cbn [length xsM]. rewrite Nat2Z.inj_succ.
      assert (Hn1' : Forall (fun a => 0 <= a) (map valueof (snd c))) by (rewrite Forall_map; exact Hn1).
      pose proof (wsumM_big C M _ HC HM H7 H2 Hn1' Hc) as H1. unfold wf_bin in Hwc.
      assert (Eb : bigb valueof C c = true) by (apply bigb_true; exact Hc). rewrite Eb. lia.
  Qed.

  Lemma heavyM C M l0 : 0 <= C -> 0 <= M -> 12 * C <= 7 * M -> M <= 2 * C ->
    forall (b : bins A) alpha,
    wf valueof b -> all_nonempty b -> anyfit valueof C b -> bf2 valueof C b -> half_full C b ->
    okM C M l0 b -> regular valueof C l0 b ->
    Forall (fun y => 0 <= valueof y) (contents b) ->
    Forall (head2_ge valueof C alpha) b ->
    10 * M * Z.of_nat (length b) + xsM C b <= cwM C M b + PhiM C M l0 alpha.
  Proof.
    intros HC HM H7 H2. induction b as [|bn t IH]; intros alpha Hw Hne Haf Hb2 Hhf Hok Hreg Hnn Hge.
    - inversion Hreg.
    - unfold wf in Hw. apply Forall_cons_iff in Hw. destruct Hw as [Hwb Hw].
      unfold all_nonempty in Hne. apply Forall_cons_iff in Hne. destruct Hne as [Hbn Hne].
      apply anyfit_cons in Haf. destruct Haf as [Hlt1 Haf].
      cbn [bf2] in Hb2. destruct Hb2 as [Hlt2 Hb2].
      unfold half_full in Hhf. apply Forall_cons_iff in Hhf. destruct Hhf as [Hh1 Hhf].
      unfold okM in Hok. apply Forall_cons_iff in Hok. destruct Hok as [Hok1 Hok].
      rewrite contents_cons in Hnn. apply Forall_app in Hnn. destruct Hnn as [Hnn1 Hnn2].
      apply Forall_cons_iff in Hge. destruct Hge as [Hge1 Hge2].
      rewrite contents_cons, !map_app, !fsum_app. cbn [length xsM]. rewrite Nat2Z.inj_succ.
      unfold wf_bin in Hwb.
      assert (Hnn1' : Forall (fun a => 0 <= a) (map valueof (snd bn)))
        by (rewrite Forall_map; exact Hnn1).
      set (alpha' := Z.max alpha (C - fst bn + 1)).
      assert (Hmono : PhiM C M l0 alpha' <= PhiM C M l0 alpha)
        by (apply PhiM_mono; auto; unfold alpha'; lia).
      assert (Htail : (l0 <= fst bn /\ nobig valueof C bn /\
                       10 * M * Z.of_nat (length t) + xsM C t <= cwM C M t) \/
                      10 * M * Z.of_nat (length t) + xsM C t <= cwM C M t + PhiM C M l0 alpha').
      { inversion Hreg as [c t0 Hnb Hlv Hallbig E1|c t0 Hreg' E1]; subst.
        - left. split; [exact Hlv|]. split; [exact Hnb|]. apply allbig_heavyM; auto.
        - right. apply IH; auto. apply (head2_ge_next1 valueof C alpha (fst bn)); auto. }
      destruct (bigb valueof C bn) eqn:Eb.
      + apply bigb_true in Eb.
        pose proof (wsumM_big C M _ HC HM H7 H2 Hnn1' Eb) as Hw10.
        destruct Htail as [(_ & Hnb & _)|Ht].
        * exfalso. apply bigb_false in Hnb. apply bigb_true in Eb. congruence.
        * lia.
      + apply bigb_false in Eb. specialize (Hok1 Eb). unfold nobig in Eb. rename Eb into Hnb.
        unfold head2_ge in Hge1.
        destruct (snd bn) as [|x1 [|x2 rest]] eqn:Es; [congruence| |].
        * cbn [map] in Hwb, Hnb. rewrite pk_zsum_cons, pk_zsum_nil in Hwb.
          apply Forall_cons_iff in Hnb. destruct Hnb as [Hx1 _]. lia.
        * cbn [map] in Hwb, Hnb, Hnn1' |- *. rewrite !pk_zsum_cons in Hwb.
          apply Forall_cons_iff in Hnb. destruct Hnb as [Hx1 Hnb].
          apply Forall_cons_iff in Hnb. destruct Hnb as [Hx2 Hnb].
          destruct Hge1 as [Ha1 Ha2].
          assert (Ha2' : alpha <= valueof x2) by (destruct Ha2 as [Ha2|Ha2]; [exact Ha2|lia]).
          clear Ha2.
          apply Forall_cons_iff in Hnn1'. destruct Hnn1' as [Hp1 Hnn1'].
          apply Forall_cons_iff in Hnn1'. destruct Hnn1' as [Hp2 Hnnr].
          pose proof (zsum_nonneg _ Hnnr) as Hr0.
          pose proof (wsumM_ge_24 C M _ HM H7 : 24 * zsum (map valueof rest) <= _) as Hr8.
          rewrite !fsum_cons.
          pose proof (bonM_mono C M alpha (valueof x1) HM H7 Ha1) as Hm1.
          pose proof (bonM_mono C M alpha (valueof x2) HM H7 Ha2') as Hm2.
          destruct Htail as [(Hlv & _ & Ht)|Ht].
          -- assert (Hstep : 10 * M <=
                       WM C M (valueof x1) + WM C M (valueof x2) + 24 * zsum (map valueof rest)
                       + PhiM C M l0 alpha).
             { unfold PhiM, WM. lia. }
             lia.
          -- assert (Hstep : 10 * M + PhiM C M l0 alpha' <=
                       WM C M (valueof x1) + WM C M (valueof x2) + 24 * zsum (map valueof rest)
                       + PhiM C M l0 alpha).
             { unfold PhiM, WM. subst alpha'.
               pose proof (bonM_spec C M (Z.max alpha (C - fst bn + 1))) as H4.
               pose proof (bonM_spec C M alpha) as H5.
               lia. }
             lia.
  Qed.
End HeavyM.

(** ---- 3. every bin more than half full: 10 m <= 17 n + 1 ---- *)
Section HalfFull1.
  Context {A : Type} (valueof : A -> Z).

  Notation cwM C M b := (wsumM C M (map valueof (contents b))).
  Notation bigc C b := (fsum (bigw C) (map valueof (contents b))).
  Notation nbigb C := (fun c : bin A => negb (bigb valueof C c)).

  Lemma nobig_hasbig C (c : bin A) : nobig valueof C c -> hasbig valueof C c -> False.
  Proof.
    unfold nobig, hasbig. intros H1 H2. apply Exists_exists in H2. destruct H2 as (v & Hin & Hv).
    rewrite Forall_forall in H1. apply Hv. apply H1. exact Hin.
  Qed.

  (** the last bin without a value above C/2 is unique *)
  Lemma last_common_unique C (t1 : bins A) c t2 : forall t1' c' t2',
    t1 ++ c :: t2 = t1' ++ c' :: t2' -> nobig valueof C c -> Forall (hasbig valueof C) t2 ->
    nobig valueof C c' -> Forall (hasbig valueof C) t2' -> c = c'.
  Proof.
    induction t1 as [|d t1 IH]; intros t1' c' t2' E Hc H2 Hc' H2'.
    - destruct t1' as [|d' t1']; cbn [app] in E.
      + injection E as E1 _. exact E1.
      + exfalso. injection E as _ E2. subst t2. apply Forall_app in H2. destruct H2 as [_ H2].
        apply Forall_cons_iff in H2. destruct H2 as [H2 _]. apply (nobig_hasbig C c'); assumption.
    - destruct t1' as [|d' t1']; cbn [app] in E.
      + exfalso. injection E as _ E2. subst t2'. apply Forall_app in H2'. destruct H2' as [_ H2'].
        apply Forall_cons_iff in H2'. destruct H2' as [H2' _]. apply (nobig_hasbig C c); assumption.
      + injection E as _ E2. apply (IH t1' c' t2'); assumption.
  Qed.

  Lemma cntb_app P (t1 t2 : bins A) : cntb P (t1 ++ t2) = cntb P t1 + cntb P t2.
  Proof. induction t1 as [|c t IH]; cbn [app cntb]; [lia|]. rewrite IH. lia. Qed.

  Lemma cntb_bigb_le C (t : bins A) : cntb (bigb valueof C) t <= bigc C t.
  Proof.
    induction t as [|c t IH].
    - cbn [cntb]. unfold contents, lists. cbn [map concat]. rewrite fsum_nil. lia.
    - rewrite contents_cons, map_app, fsum_app. cbn [cntb].
      pose proof (fsum_bigw_nonneg C (map valueof (snd c))) as H0.
      destruct (bigb valueof C c) eqn:E; [|lia].
      apply bigb_true in E. pose proof (fsum_bigw_pos C _ E). lia.
  Qed.

  Lemma cntb_nbig_allbig C (t : bins A) : Forall (hasbig valueof C) t -> cntb (nbigb C) t = 0.
  Proof.
    intros H. induction H as [|c t Hc Ht IH]; [reflexivity|]. cbn [cntb]. rewrite IH.
    apply bigb_true in Hc. rewrite Hc. reflexivity.
  Qed.

  (** some bin holds a value above C/2 as soon as there is such a value *)
  Lemma bigc_pos_bin C (b : bins A) : 1 <= bigc C b -> exists Bg, In Bg b /\ bigb valueof C Bg = true.
  Proof.
    intros H. destruct (existsb (bigb valueof C) b) eqn:E.
    - apply existsb_exists in E. exact E.
    - exfalso. assert (H0 : bigc C b = 0).
      { clear H. induction b as [|c t IH].
        - unfold contents, lists. cbn [map concat]. rewrite fsum_nil. reflexivity.
        - cbn [existsb] in E. apply orb_false_iff in E. destruct E as [E1 E2].
          rewrite contents_cons, map_app, fsum_app, (IH E2).
          apply bigb_false in E1. rewrite (bigc_nobig C _ E1). reflexivity. }
      lia.
  Qed.

  (** the bins other than the last common bin c satisfy [okM] for M >= 3 (sum of c) *)
  Lemma okM_last C M (t1 : bins A) c t2 : 0 <= C ->
    wf valueof (t1 ++ c :: t2) -> anyfit valueof C (t1 ++ c :: t2) -> bf2 valueof C (t1 ++ c :: t2) ->
    Forall (fun y => 0 <= valueof y) (snd c) -> nobig valueof C c -> C < 2 * fst c ->
    Forall (hasbig valueof C) t2 -> 3 * fst c <= M -> 6 * fst c + M <= 6 * C + 12 ->
    Forall (fun bn : bin A => nobig valueof C bn -> 2 * (C - fst bn + 1) <= fst c) t1 /\
    okM valueof C M (fst c) (t1 ++ c :: t2).
  Proof.
    intros HC Hw Ha Hb2 Hnn Hnb Hhc H2 HM1 HM2.
    assert (H1 : Forall (fun bn : bin A => nobig valueof C bn -> 2 * (C - fst bn + 1) <= fst c) t1).
    { rewrite Forall_forall. intros bn Hin _.
      apply (before_common valueof C t1 c t2 bn); auto. }
    split; [exact H1|]. unfold okM. apply Forall_app. split.
    - eapply Forall_impl; [|exact H1]. intros bn Hbn Hnbn. left. specialize (Hbn Hnbn). lia.
    - constructor; [intros _; right; lia|].
      eapply Forall_impl; [|exact H2]. intros bn Hbn Hnbn. exfalso. apply (nobig_hasbig C bn); assumption.
  Qed.

  (** 3a. the last common bin c is filled to l with 4C/7 <= l <= 2C/3: the weights WM, M = 3 l *)
  Lemma exceptional_core C (b : bins A) (vs : list Z) (n : nat) t1 c t2 :
    0 < C -> b = t1 ++ c :: t2 ->
    wf valueof b -> all_nonempty b -> anyfit valueof C b -> bf2 valueof C b -> half_full C b ->
    Forall (fun y => 0 <= valueof y) (contents b) ->
    Permutation (map valueof (contents b)) vs -> Packable C vs n ->
    nobig valueof C c -> Forall (hasbig valueof C) t2 ->
    4 * C <= 7 * fst c -> 3 * fst c <= 2 * C ->
    10 * (3 * fst c) * Z.of_nat (length b) + xsM valueof C b <=
      17 * (3 * fst c) * Z.of_nat n + 2 * (3 * fst c).
  Proof.
    intros HC Eb Hw Hnem Ha Hb2 Hhf Hnnb Hpv Hpack Hnb H2 H7 H3.
    assert (HC0 : 0 <= C) by lia. set (M := 3 * fst c) in *.
    assert (Hinc : In c b) by (rewrite Eb; apply in_or_app; right; left; reflexivity).
    assert (Hhc : C < 2 * fst c) by (unfold half_full in Hhf; rewrite Forall_forall in Hhf; apply Hhf; exact Hinc).
    assert (Hnnc : Forall (fun y => 0 <= valueof y) (snd c)).
    { apply (contents_Forall (fun y => 0 <= valueof y)) in Hnnb.
      rewrite Forall_forall in Hnnb. apply Hnnb. exact Hinc. }
    assert (Hok : okM valueof C M (fst c) b).
    { rewrite Eb in Hw, Ha, Hb2 |- *. apply (okM_last C M t1 c t2); auto; unfold M; lia. }
    assert (Hreg : regular valueof C (fst c) b).
    { rewrite Eb. apply regular_app. apply reg_last; auto. lia. }
    pose proof (heavyM valueof C M (fst c) HC0 ltac:(unfold M; lia) ltac:(unfold M; lia) ltac:(unfold M; lia)
                  b 0 Hw Hnem Ha Hb2 Hhf Hok Hreg Hnnb (head2_ge_nonneg valueof C b Hnnb)) as Hheavy.
    assert (Hvs : Forall (fun a => 0 <= a) vs).
    { eapply Permutation_Forall; [exact Hpv|]. rewrite Forall_map. exact Hnnb. }
    assert (Hlight : wsumM C M vs <= 17 * M * Z.of_nat n).
    { apply (packable_fsum (WM C M) C); auto. intros g Hg Hs. apply light_binM; auto; unfold M; lia. }
    rewrite <- (fsum_perm (WM C M) _ _ Hpv) in Hlight.
    assert (HPhi : PhiM C M (fst c) 0 = 2 * M).
    { unfold PhiM. pose proof (bonM_spec C M 0). unfold M in *. lia. }
    lia.
  Qed.

  (** 3b. the last common bin is filled below 4C/7: sizes.  u(bin) = 14 sum + 3 C (number of
      values above C/2) - 10 C is positive except for c *)
  Definition ub (C : Z) (bn : bin A) : Z :=
    14 * fst bn + 3 * C * fsum (bigw C) (map valueof (snd bn)) - 10 * C.

  Fixpoint usum (C : Z) (b : bins A) : Z :=
    match b with [] => 0 | c :: t => ub C c + usum C t end.

  Lemma usum_app C (b1 b2 : bins A) : usum C (b1 ++ b2) = usum C b1 + usum C b2.
  Proof. induction b1 as [|c t IH]; cbn [app usum]; [lia|]. rewrite IH. lia. Qed.

  Lemma usum_total C (b : bins A) : wf valueof b ->
    usum C b = 14 * zsum (map valueof (contents b)) + 3 * C * bigc C b - 10 * C * Z.of_nat (length b).
  Proof.
    intros Hw. induction Hw as [|c t Hc Ht IH].
    - cbn [usum length Z.of_nat]. unfold contents, lists. cbn [map concat].
      rewrite fsum_nil, pk_zsum_nil. lia.
    - cbn [usum length]. rewrite Nat2Z.inj_succ, IH, contents_cons, !map_app, fsum_app, zsum_app.
      unfold ub. unfold wf_bin in Hc. rewrite Hc. lia.
  Qed.

  Lemma usum_lower C l (t : bins A) : 0 <= C -> 0 <= 4 * C + 14 - 7 * l ->
    half_full C t ->
    Forall (fun bn : bin A => nobig valueof C bn -> 2 * (C - fst bn + 1) <= l) t ->
    (4 * C + 14 - 7 * l) * cntb (nbigb C) t <= usum C t.
  Proof.
    intros HC Hd Hhf H. induction H as [|c t Hc Ht IH]; [cbn [cntb usum]; lia|].
    unfold half_full in Hhf. apply Forall_cons_iff in Hhf. destruct Hhf as [Hh1 Hhf].
    specialize (IH Hhf). cbn [cntb usum]. unfold ub.
    destruct (bigb valueof C c) eqn:Eb; cbn [negb].
    - apply bigb_true in Eb. pose proof (fsum_bigw_pos C _ Eb) as Hp.
      assert (3 * C * 1 <= 3 * C * fsum (bigw C) (map valueof (snd c)))
        by (apply Z.mul_le_mono_nonneg_l; lia).
      lia.
    - apply bigb_false in Eb. specialize (Hc Eb). rewrite (bigc_nobig C _ Eb). lia.
  Qed.

  Lemma low_exceptional_core C (b : bins A) (vs : list Z) (n : nat) t1 c t2 :
    0 < C -> (3 <= n)%nat -> b = t1 ++ c :: t2 ->
    wf valueof b -> anyfit valueof C b -> bf2 valueof C b -> half_full C b ->
    Forall (fun y => 0 <= valueof y) (contents b) ->
    Permutation (map valueof (contents b)) vs -> Packable C vs n ->
    nobig valueof C c -> Forall (hasbig valueof C) t2 -> 7 * fst c < 4 * C ->
    (10 * length b <= 17 * n + 1)%nat.
  Proof.
    intros HC Hn Eb Hw Ha Hb2 Hhf Hnnb Hpv Hpack Hnb H2 H7.
    assert (HC0 : 0 <= C) by lia. set (l := fst c) in *.
    assert (Hinc : In c b) by (rewrite Eb; apply in_or_app; right; left; reflexivity).
    assert (Hhc : C < 2 * l) by (unfold half_full in Hhf; rewrite Forall_forall in Hhf; apply Hhf; exact Hinc).
    assert (Hnnc : Forall (fun y => 0 <= valueof y) (snd c)).
    { apply (contents_Forall (fun y => 0 <= valueof y)) in Hnnb.
      rewrite Forall_forall in Hnnb. apply Hnnb. exact Hinc. }
    assert (Hvs : Forall (fun a => 0 <= a) vs).
    { eapply Permutation_Forall; [exact Hpv|]. rewrite Forall_map. exact Hnnb. }
    pose proof (packable_total C vs n Hpack) as Htot. rewrite <- (zsum_perm _ _ Hpv) in Htot.
    pose proof (packable_big C vs n HC0 Hvs Hpack) as Hbig.
    change (zsum (map (bigw C) vs)) with (fsum (bigw C) vs) in Hbig.
    rewrite <- (fsum_perm (bigw C) _ _ Hpv) in Hbig.
    pose proof (usum_total C b Hw) as Htotal.
    pose proof (cntb_bigb_le C b) as Hcnt.
    pose proof (cntb_total (bigb valueof C) b) as Hct.
    assert (H1 : Forall (fun bn : bin A => nobig valueof C bn -> 2 * (C - fst bn + 1) <= l) t1).
    { rewrite Forall_forall. intros bn Hin _. rewrite Eb in Hw, Ha, Hb2.
      apply (before_common valueof C t1 c t2 bn); auto. }
    assert (Hhf' := Hhf). rewrite Eb in Hhf'. unfold half_full in Hhf'.
    apply Forall_app in Hhf'. destruct Hhf' as [Hhf1 Hhf2].
    apply Forall_cons_iff in Hhf2. destruct Hhf2 as [_ Hhf2].
    assert (Hd : 0 <= 4 * C + 14 - 7 * l) by lia.
    pose proof (usum_lower C l t1 HC0 Hd Hhf1 H1) as Hu1.
    assert (H2' : Forall (fun bn : bin A => nobig valueof C bn -> 2 * (C - fst bn + 1) <= l) t2).
    { eapply Forall_impl; [|exact H2]. intros bn Hbn Hnbn. exfalso. apply (nobig_hasbig C bn); assumption. }
    pose proof (usum_lower C l t2 HC0 Hd Hhf2 H2') as Hu2.
    rewrite (cntb_nbig_allbig C t2 H2) in Hu2.
    assert (Ebc : bigb valueof C c = false) by (apply bigb_false; exact Hnb).
    assert (Euc : ub C c = 14 * l - 10 * C).
    { unfold ub. rewrite (bigc_nobig C _ Hnb). fold l. lia. }
    rewrite Eb, usum_app in Htotal. cbn [usum] in Htotal. rewrite <- Eb in Htotal.
    rewrite Eb, !cntb_app in Hct. cbn [cntb] in Hct. rewrite Ebc in Hct. cbn [negb] in Hct.
    rewrite (cntb_nbig_allbig C t2 H2) in Hct. rewrite <- Eb in Hct.
    rewrite Eb, !cntb_app in Hcnt. cbn [cntb] in Hcnt. rewrite Ebc in Hcnt. rewrite <- Eb in Hcnt.
    set (G := cntb (nbigb C) t1) in *.
    pose proof (cntb_nonneg (nbigb C) t1) as HG0. fold G in HG0.
    set (mm := Z.of_nat (length b)) in *. set (nn := Z.of_nat n) in *.
    assert (Hnn3 : 3 <= nn) by (unfold nn; lia).
    destruct (Z_le_dec 2 G) as [HG|HG].
    - assert (Hp : (4 * C + 14 - 7 * l) * 2 <= (4 * C + 14 - 7 * l) * G)
        by (apply Z.mul_le_mono_nonneg_l; lia).
      assert (Hb : 3 * C * bigc C b <= 3 * C * nn) by (apply Z.mul_le_mono_nonneg_l; lia).
      assert (Hz : C * (10 * mm) < C * (17 * nn + 2)) by nia.
      apply Z.mul_lt_mono_pos_l in Hz; lia.
    - lia.
  Qed.

  (** 3c. all cases together *)
  Lemma half_full_1_core C (items : list A) (b : bins A) (n : nat) :
    items <> [] -> Forall (fun x : A => 0 <= valueof x) items ->
    Inv valueof C b items -> bf2 valueof C b -> 0 <= C -> (1 <= n)%nat ->
    Forall (fun y => 0 <= valueof y) (contents b) ->
    Packable C (map valueof items) n -> half_full C b ->
    (10 * length b <= 17 * n + 1)%nat.
  Proof.
    intros Hne Hnn HI Hb2 HC Hn Hnnb Hpack Hhf.
    pose proof (Inv_lt_2n valueof C b items n HI Hne Hnn Hpack) as H2n.
    destruct (le_lt_dec n 3) as [Hn3|Hn4]; [lia|].
    assert (Hvs : Forall (fun v => 0 <= v) (map valueof items)) by (rewrite Forall_map; exact Hnn).
    pose proof (packable_big C _ n HC Hvs Hpack) as Hbig.
    change (zsum (map (bigw C) (map valueof items))) with (fsum (bigw C) (map valueof items)) in Hbig.
    destruct (Z_lt_dec (fsum (bigw C) (map valueof items)) (Z.of_nat n)) as [Hlt|Hge].
    { apply (ratio_17_1_core valueof C items b n); auto. }
    destruct (last_common_split valueof C b) as [Hall|(t1 & c & t2 & Eb & Hnb & Hall)].
    { apply (ratio_17_1_core valueof C items b n); auto. left.
      intros t1 c t2 E Hc _. exfalso. rewrite E in Hall. apply Forall_app in Hall.
      destruct Hall as [_ Hall]. apply Forall_cons_iff in Hall. destruct Hall as [Hall _].
      apply (nobig_hasbig C c); assumption. }
    destruct (Z_le_dec (2 * C) (3 * fst c)) as [H23|H23].
    { apply (ratio_17_1_core valueof C items b n); auto. left.
      intros t1' c' t2' E Hc' H2'. rewrite Eb in E.
      rewrite <- (last_common_unique C t1 c t2 t1' c' t2' E Hnb Hall Hc' H2'). exact H23. }
    destruct HI as (Hw & Hf & Hp & Hnem & Hns & Ha).
    pose proof (Permutation_map valueof Hp) as Hpv.
    destruct (Z.eq_dec C 0) as [E0|Hpos].
    { subst C. pose proof (cap0_single valueof b _ n Hw Ha Hnnb Hpv Hpack). lia. }
    destruct (Z_le_dec (4 * C) (7 * fst c)) as [H47|H47].
    - pose proof (exceptional_core C b (map valueof items) n t1 c t2 ltac:(lia) Eb Hw Hnem Ha Hb2 Hhf
                    Hnnb Hpv Hpack Hnb Hall H47 ltac:(lia)) as H.
      rewrite <- (fsum_perm (bigw C) _ _ Hpv) in Hge.
      destruct (bigc_pos_bin C b ltac:(lia)) as (Bg & HBg & Hbb).
      pose proof (xsM_ge_in valueof C b Bg Hhf HBg Hbb) as Hxs.
      assert (HhB : C < 2 * fst Bg) by (unfold half_full in Hhf; rewrite Forall_forall in Hhf; auto).
      assert (Hinc : In c b) by (rewrite Eb; apply in_or_app; right; left; reflexivity).
      assert (Hhc : C < 2 * fst c) by (unfold half_full in Hhf; rewrite Forall_forall in Hhf; auto).
      assert (Hz : fst c * (10 * Z.of_nat (length b)) < fst c * (17 * Z.of_nat n + 2)) by lia.
      apply Z.mul_lt_mono_pos_l in Hz; lia.
    - apply (low_exceptional_core C b (map valueof items) n t1 c t2); auto; lia.
  Qed.
End HalfFull1.

(** ---- 4. rung 1 when no bin is a single item a with C/3 < a <= C/2 ---- *)
Section Rung1nms.
  Context {A : Type} (valueof : A -> Z).

  Lemma ratio_17_1_nms_core C (items : list A) (b : bins A) (n : nat) :
    items <> [] -> Forall (fun x : A => 0 <= valueof x) items ->
    Inv valueof C b items -> bf2 valueof C b -> 0 <= C -> (1 <= n)%nat ->
    Forall (fun y => 0 <= valueof y) (contents b) ->
    Packable C (map valueof items) n -> no_medium_single valueof C b ->
    (10 * length b <= 17 * n + 1)%nat.
  Proof.
    intros Hne Hnn HI Hb2 HC Hn Hnnb Hpack Hno1.
    destruct (Forall_dec (fun bn : bin A => C < 2 * fst bn)
                (fun bn => Z_lt_dec C (2 * fst bn)) b) as [Hhf|Hnhf].
    - apply (half_full_1_core valueof C items b n); auto.
    - destruct HI as (Hw & Hf & Hp & Hnem & Hns & Ha).
      pose proof (Permutation_map valueof Hp) as Hpv.
      destruct (Z.eq_dec C 0) as [E0|Hpos].
      + subst C. pose proof (cap0_single valueof b _ n Hw Ha Hnnb Hpv Hpack). lia.
      + pose proof (low_bin_core valueof C b (map valueof items) n ltac:(lia) Hn Hw Hnem Hns Ha Hb2 Hnnb
                      Hpv Hpack Hnhf Hno1) as H. lia.
  Qed.

  (** every bin more than half full: 10 m <= 17 n + 1 *)
  Theorem ff_half_full_1_partial C (items : list A) (b : bins A) (n : nat) :
    items <> [] -> Forall (fun x : A => 0 <= valueof x) items ->
    first_fit valueof true C items = Ok b -> Packable C (map valueof items) n ->
    half_full C b -> (10 * length b <= 17 * n + 1)%nat.
  Proof.
    intros Hne Hnn Hff Hpack Hhf.
    destruct (ff_facts valueof C items b n Hne Hnn Hff Hpack) as (HI & Hb2 & HC & Hn & Hnnb).
    apply (half_full_1_core valueof C items b n); auto.
  Qed.

  Theorem bf_half_full_1_partial C (items : list A) (b : bins A) (n : nat) :
    items <> [] -> Forall (fun x : A => 0 <= valueof x) items ->
    best_fit valueof true C items = Ok b -> Packable C (map valueof items) n ->
    half_full C b -> (10 * length b <= 17 * n + 1)%nat.
  Proof.
    intros Hne Hnn Hbf Hpack Hhf.
    destruct (bf_facts valueof C items b n Hne Hnn Hbf Hpack) as (HI & Hb2 & HC & Hn & Hnnb).
    apply (half_full_1_core valueof C items b n); auto.
  Qed.

  (** no bin is a single item a with C/3 < a <= C/2: 10 m <= 17 n + 1 *)
  Theorem ff_ratio_17_1_nms_partial C (items : list A) (b : bins A) (n : nat) :
    items <> [] -> Forall (fun x : A => 0 <= valueof x) items ->
    first_fit valueof true C items = Ok b -> Packable C (map valueof items) n ->
    no_medium_single valueof C b -> (10 * length b <= 17 * n + 1)%nat.
  Proof.
    intros Hne Hnn Hff Hpack Hno1.
    destruct (ff_facts valueof C items b n Hne Hnn Hff Hpack) as (HI & Hb2 & HC & Hn & Hnnb).
    apply (ratio_17_1_nms_core C items b n); auto.
  Qed.

  Theorem bf_ratio_17_1_nms_partial C (items : list A) (b : bins A) (n : nat) :
    items <> [] -> Forall (fun x : A => 0 <= valueof x) items ->
    best_fit valueof true C items = Ok b -> Packable C (map valueof items) n ->
    no_medium_single valueof C b -> (10 * length b <= 17 * n + 1)%nat.
  Proof.
    intros Hne Hnn Hbf Hpack Hno1.
    destruct (bf_facts valueof C items b n Hne Hnn Hbf Hpack) as (HI & Hb2 & HC & Hn & Hnnb).
    apply (ratio_17_1_nms_core C items b n); auto.
  Qed.

  (** ... hence the sharp bound for every n that is not 7 mod 10 *)
  Theorem ff_ratio_17_floor_nms1_partial C (items : list A) (b : bins A) (n : nat) :
    items <> [] -> Forall (fun x : A => 0 <= valueof x) items ->
    first_fit valueof true C items = Ok b -> MinBins C (map valueof items) n ->
    no_medium_single valueof C b ->
    (exists k r, n = 10 * k + r /\ r < 10 /\ r <> 7)%nat ->
    (10 * length b <= 17 * n)%nat.
  Proof.
    intros Hne Hnn Hff [Hpack _] Hno1 (k & r & E & Hr & H7).
    pose proof (ff_ratio_17_1_nms_partial C items b n Hne Hnn Hff Hpack Hno1) as H1. lia.
  Qed.

  Theorem bf_ratio_17_floor_nms1_partial C (items : list A) (b : bins A) (n : nat) :
    items <> [] -> Forall (fun x : A => 0 <= valueof x) items ->
    best_fit valueof true C items = Ok b -> MinBins C (map valueof items) n ->
    no_medium_single valueof C b ->
    (exists k r, n = 10 * k + r /\ r < 10 /\ r <> 7)%nat ->
    (10 * length b <= 17 * n)%nat.
  Proof.
    intros Hne Hnn Hbf [Hpack _] Hno1 (k & r & E & Hr & H7).
    pose proof (bf_ratio_17_1_nms_partial C items b n Hne Hnn Hbf Hpack Hno1) as H1. lia.
  Qed.
End Rung1nms.


(** ---- 5. tools for a bin {a} with C/3 < a <= C/2 ---- *)
Section ToolsM.
  Context {A : Type} (valueof : A -> Z).

  Notation cwM C M b := (wsumM C M (map valueof (contents b))).
  Notation bigc C b := (fsum (bigw C) (map valueof (contents b))).

  (** every bin with a value above C/2 has excess at least E; one of them, Bg, is singled out *)
  Lemma xsM_lower C E (b' : bins A) : 0 <= C -> 0 <= E -> wf valueof b' -> feasible C b' ->
    Forall (fun y => 0 <= valueof y) (contents b') ->
    Forall (fun c : bin A => E <= 24 * fst c - 12 * C) b' ->
    E * bigc C b' <= xsM valueof C b'.
  Proof.
    intros HC HE. induction b' as [|c t IH]; intros Hw Hfe Hnn HEc.
    - cbn [xsM]. unfold contents, lists. cbn [map concat]. rewrite fsum_nil. lia.
    - unfold wf in Hw. apply Forall_cons_iff in Hw. destruct Hw as [Hwc Hw].
      unfold feasible in Hfe. apply Forall_cons_iff in Hfe. destruct Hfe as [Hfc Hfe].
      rewrite contents_cons in Hnn. apply Forall_app in Hnn. destruct Hnn as [Hn1 Hn2].
      apply Forall_cons_iff in HEc. destruct HEc as [HE1 HE2].
      specialize (IH Hw Hfe Hn2 HE2).
      rewrite contents_cons, map_app, fsum_app. cbn [xsM].
      assert (Hn1' : Forall (fun v => 0 <= v) (map valueof (snd c))) by (rewrite Forall_map; exact Hn1).
      unfold wf_bin in Hwc.
      pose proof (bigw_le_one C _ HC Hn1' ltac:(lia)) as H1.
      pose proof (fsum_bigw_nonneg C (map valueof (snd c))) as H0.
      destruct (bigb valueof C c) eqn:Eb.
      + assert (E * fsum (bigw C) (map valueof (snd c)) <= E * 1)
          by (apply Z.mul_le_mono_nonneg_l; lia). lia.
      + apply bigb_false in Eb. rewrite (bigc_nobig C _ Eb). lia.
  Qed.

  Lemma xsM_lower_in C E (b' : bins A) Bg : 0 <= C -> 0 <= E -> wf valueof b' -> feasible C b' ->
    Forall (fun y => 0 <= valueof y) (contents b') ->
    Forall (fun c : bin A => E <= 24 * fst c - 12 * C) b' ->
    In Bg b' -> bigb valueof C Bg = true ->
    E * bigc C b' + (24 * fst Bg - 12 * C - E) <= xsM valueof C b'.
  Proof.
    intros HC HE Hw Hfe Hnn HEc Hin Hb. apply in_split in Hin. destruct Hin as (l1 & l2 & Eb). subst b'.
    unfold wf in Hw. apply Forall_app in Hw. destruct Hw as [Hw1 Hw].
    apply Forall_cons_iff in Hw. destruct Hw as [HwB Hw2].
    unfold feasible in Hfe. apply Forall_app in Hfe. destruct Hfe as [Hf1 Hfe].
    apply Forall_cons_iff in Hfe. destruct Hfe as [HfB Hf2].
    rewrite contents_app, contents_cons in Hnn. apply Forall_app in Hnn. destruct Hnn as [Hn1 Hnn].
    apply Forall_app in Hnn. destruct Hnn as [HnB Hn2].
    apply Forall_app in HEc. destruct HEc as [HE1 HEc].
    apply Forall_cons_iff in HEc. destruct HEc as [HEB HE2].
    pose proof (xsM_lower C E l1 HC HE Hw1 Hf1 Hn1 HE1) as X1.
    pose proof (xsM_lower C E l2 HC HE Hw2 Hf2 Hn2 HE2) as X2.
    rewrite contents_app, contents_cons, !map_app, !fsum_app, xsM_app. cbn [xsM]. rewrite Hb.
    assert (HnB' : Forall (fun v => 0 <= v) (map valueof (snd Bg))) by (rewrite Forall_map; exact HnB).
    unfold wf_bin in HwB.
    pose proof (bigw_le_one C _ HC HnB' ltac:(lia)) as H1.
    pose proof (fsum_bigw_nonneg C (map valueof (snd Bg))) as H0.
    assert (E * fsum (bigw C) (map valueof (snd Bg)) <= E * 1)
      by (apply Z.mul_le_mono_nonneg_l; lia).
    lia.
  Qed.

  Lemma bf2_app_r C (l1 l2 : bins A) : bf2 valueof C (l1 ++ l2) -> bf2 valueof C l2.
  Proof. induction l1 as [|c l1 IH]; cbn [app bf2]; [auto|]. intros [_ H]. apply IH. exact H. Qed.

  (** a bin d without a value above C/2, more than half full, after c: its first two items do
      not fit c *)
  Lemma after_common_level C (t1 : bins A) c t2 d : 0 <= C ->
    wf valueof (t1 ++ c :: t2) -> anyfit valueof C (t1 ++ c :: t2) -> bf2 valueof C (t1 ++ c :: t2) ->
    Forall (fun y => 0 <= valueof y) (snd d) ->
    In d t2 -> nobig valueof C d -> C < 2 * fst d -> 2 * (C - fst c + 1) <= fst d.
  Proof.
    intros HC Hw Ha Hb2 Hnn Hin Hnb Hhf.
    pose proof (anyfit_app_r valueof C t1 (c :: t2) Ha) as Ha'. apply anyfit_cons in Ha'.
    destruct Ha' as [H1 _]. rewrite Forall_forall in H1. specialize (H1 d Hin).
    pose proof (bf2_app_r C t1 (c :: t2) Hb2) as Hb'. cbn [bf2] in Hb'. destruct Hb' as [H2 _].
    rewrite Forall_forall in H2. specialize (H2 d Hin).
    unfold wf in Hw. apply Forall_app in Hw. destruct Hw as [_ Hw].
    apply Forall_cons_iff in Hw. destruct Hw as [_ Hw]. rewrite Forall_forall in Hw.
    specialize (Hw d Hin). unfold wf_bin in Hw.
    unfold later_ok in H1. unfold later2_ok in H2. unfold nobig in Hnb.
    destruct (snd d) as [|x1 [|x2 r]]; [contradiction| |].
    - cbn [map] in Hw, Hnb. rewrite pk_zsum_cons, pk_zsum_nil in Hw.
      apply Forall_cons_iff in Hnb. destruct Hnb as [Hx1 _]. lia.
    - cbn [map] in Hw, Hnb. rewrite !pk_zsum_cons in Hw.
      apply Forall_cons_iff in Hnb. destruct Hnb as [Hx1 _].
      apply Forall_cons_iff in Hnn. destruct Hnn as [_ Hnn].
      apply Forall_cons_iff in Hnn. destruct Hnn as [_ Hnn].
      assert (0 <= zsum (map valueof r)) by (apply zsum_nonneg; rewrite Forall_map; exact Hnn).
      lia.
  Qed.

  (** the parameter M for a deficit carrier of sum l <= 2C/3 *)
  Definition Mof (C l : Z) : Z := Z.min (2 * C) (Z.max (3 * l) ((12 * C + 6) / 7)).

  Lemma Mof_spec C l : 0 <= C -> 3 * l <= 2 * C ->
    12 * C <= 7 * Mof C l /\ Mof C l <= 2 * C /\ 3 * l <= Mof C l /\
    (Mof C l = 3 * l \/ 7 * Mof C l <= 12 * C + 6).
  Proof.
    intros HC Hl. unfold Mof.
    pose proof (Z.div_mod (12 * C + 6) 7) as Hdm. pose proof (Z.mod_pos_bound (12 * C + 6) 7) as Hmb.
    lia.
  Qed.

  (** some common bin c carries the whole deficit 10 M - 24 (sum of c), for a suitable M *)
  Lemma heavy_choiceM C (b' : bins A) : 0 < C ->
    wf valueof b' -> all_nonempty b' -> anyfit valueof C b' -> bf2 valueof C b' -> half_full C b' ->
    Forall (fun y => 0 <= valueof y) (contents b') ->
    Forall (hasbig valueof C) b' \/
    exists t1 c t2 M, b' = t1 ++ c :: t2 /\ nobig valueof C c /\
      12 * C <= 7 * M /\ M <= 2 * C /\
      (M = 3 * fst c \/ (7 * M <= 12 * C + 6 /\ 3 * fst c <= M) \/ (M = 2 * C /\ 2 * C <= 3 * fst c)) /\
      (3 * fst c <= 2 * C ->
       Forall (fun bn : bin A => nobig valueof C bn -> 2 * (C - fst bn + 1) <= fst c) t1 /\
       Forall (fun bn : bin A => nobig valueof C bn -> 2 * (C - fst c + 1) <= fst bn) t2) /\
      10 * M * Z.of_nat (length b') + xsM valueof C b' <= cwM C M b' + 10 * M - 24 * fst c.
  Proof.
    intros HC Hw Hnem Ha Hb2 Hhf Hnn. assert (HC0 : 0 <= C) by lia.
    destruct (last_common_split valueof C b') as [Hall|(t1 & c & t2 & Eb' & Hnb & Hall)];
      [left; exact Hall|right].
    assert (Hinc : In c b') by (rewrite Eb'; apply in_or_app; right; left; reflexivity).
    assert (Hhc : C < 2 * fst c) by (unfold half_full in Hhf; rewrite Forall_forall in Hhf; auto).
    assert (HPhi : forall M l0, 0 <= l0 -> 5 * M <= 12 * C -> PhiM C M l0 0 = 10 * M - 24 * l0).
    { intros M l0 Hl0 HM5. unfold PhiM. pose proof (bonM_spec C M 0). lia. }
    assert (Hnnin : forall d, In d b' -> Forall (fun y => 0 <= valueof y) (snd d)).
    { intros d Hd. apply (contents_Forall (fun y => 0 <= valueof y)) in Hnn.
      rewrite Forall_forall in Hnn. apply Hnn. exact Hd. }
    destruct (Z_le_dec (3 * fst c) (2 * C)) as [Hcap|Hcap].
    - (* the last common bin is at most 2/3 full *)
      destruct (Mof_spec C (fst c) HC0 Hcap) as (HM7 & HM2 & HM3 & HMd). set (M := Mof C (fst c)) in *.
      exists t1, c, t2, M. split; [exact Eb'|]. split; [exact Hnb|]. split; [exact HM7|].
      split; [exact HM2|]. split; [destruct HMd as [E|E]; [left; exact E|right; left; split; assumption]|].
      assert (Hok2 : Forall (fun bn : bin A => nobig valueof C bn -> 2 * (C - fst bn + 1) <= fst c) t1 /\
                     okM valueof C M (fst c) b').
      { rewrite Eb' in Hw, Ha, Hb2 |- *. apply (okM_last valueof C M t1 c t2); auto.
        destruct HMd as [E|E]; lia. }
      destruct Hok2 as [Hlev1 Hok].
      split.
      { intros _. split; [exact Hlev1|].
        eapply Forall_impl; [|exact Hall]. intros bn Hbn Hnbn. exfalso.
        apply (nobig_hasbig valueof C bn); assumption. }
      assert (Hreg : regular valueof C (fst c) b').
      { rewrite Eb'. apply regular_app. apply reg_last; auto. lia. }
      pose proof (heavyM valueof C M (fst c) HC0 ltac:(lia) HM7 HM2 b' 0 Hw Hnem Ha Hb2 Hhf Hok Hreg Hnn
                    (head2_ge_nonneg valueof C b' Hnn)) as H.
      rewrite (HPhi M (fst c) ltac:(lia) ltac:(lia)) in H. lia.
    - destruct (existsb (fun c0 : bin A => negb (bigb valueof C c0) && (3 * fst c0 <=? 2 * C)) b')
        eqn:Eex.
      + (* another common bin is at most 2/3 full *)
        apply existsb_exists in Eex. destruct Eex as (c' & Hin' & Hc').
        assert (Hnb' : nobig valueof C c').
        { apply bigb_false. destruct (bigb valueof C c'); [discriminate Hc'|reflexivity]. }
        assert (Hcap' : 3 * fst c' <= 2 * C) by lia.
        assert (Hhc' : C < 2 * fst c') by (unfold half_full in Hhf; rewrite Forall_forall in Hhf; auto).
        destruct (Mof_spec C (fst c') HC0 Hcap') as (HM7 & HM2 & HM3 & HMd).
        set (M := Mof C (fst c')) in *.
        apply in_split in Hin'. destruct Hin' as (u1 & u2 & Eu).
        exists u1, c', u2, M. split; [exact Eu|]. split; [exact Hnb'|]. split; [exact HM7|].
        split; [exact HM2|]. split; [destruct HMd as [E|E]; [left; exact E|right; left; split; assumption]|].
        assert (Hreg : regular valueof C (fst c') b').
        { rewrite Eb'. apply regular_app. apply reg_last; auto. lia. }
        assert (Hinc' : In c' b') by (rewrite Eu; apply in_or_app; right; left; reflexivity).
        pose proof (Hnnin c' Hinc') as Hnnc'.
        assert (Hlev1 : Forall (fun bn : bin A => nobig valueof C bn -> 2 * (C - fst bn + 1) <= fst c') u1).
        { rewrite Forall_forall. intros bn Hbn _. rewrite Eu in Hw, Ha, Hb2.
          apply (before_common valueof C u1 c' u2 bn HC0 Hw Ha Hb2 Hnnc' Hnb' Hhc' Hbn). }
        assert (Hlev2 : Forall (fun bn : bin A => nobig valueof C bn -> 2 * (C - fst c' + 1) <= fst bn) u2).
        { rewrite Forall_forall. intros d Hd Hnd.
          assert (Hdb : In d b') by (rewrite Eu; apply in_or_app; right; right; exact Hd).
          assert (Hhd : C < 2 * fst d) by (unfold half_full in Hhf; rewrite Forall_forall in Hhf; auto).
          rewrite Eu in Hw, Ha, Hb2.
          apply (after_common_level C u1 c' u2 d HC0 Hw Ha Hb2 (Hnnin d Hdb) Hd Hnd Hhd). }
        split; [intros _; split; assumption|].
        assert (Hok : okM valueof C M (fst c') b').
        { unfold okM. rewrite Eu. apply Forall_app. split.
          - eapply Forall_impl; [|exact Hlev1]. intros bn Hbn Hnbn. left. specialize (Hbn Hnbn). lia.
          - constructor; [intros _; right; destruct HMd as [E|E]; lia|].
            eapply Forall_impl; [|exact Hlev2]. intros bn Hbn Hnbn. left. specialize (Hbn Hnbn). lia. }
        pose proof (heavyM valueof C M (fst c') HC0 ltac:(lia) HM7 HM2 b' 0 Hw Hnem Ha Hb2 Hhf Hok Hreg Hnn
                      (head2_ge_nonneg valueof C b' Hnn)) as H.
        rewrite (HPhi M (fst c') ltac:(lia) ltac:(lia)) in H. lia.
      + (* every common bin is more than 2/3 full *)
        exists t1, c, t2, (2 * C). split; [exact Eb'|]. split; [exact Hnb|]. split; [lia|].
        split; [lia|]. split; [right; right; split; lia|]. split; [intros Hbad; lia|].
        assert (Hok : okM valueof C (2 * C) (fst c) b').
        { unfold okM. rewrite Forall_forall. intros c0 Hin0 Hnb0. left.
          destruct (Z_le_dec (3 * fst c0) (2 * C)) as [Hbad|Hgood]; [|lia]. exfalso.
          assert (Hex : existsb (fun c1 : bin A => negb (bigb valueof C c1) && (3 * fst c1 <=? 2 * C)) b'
                        = true).
          { apply existsb_exists. exists c0. split; [exact Hin0|].
            apply bigb_false in Hnb0. rewrite Hnb0. cbn [negb andb]. lia. }
          congruence. }
        assert (Hreg : regular valueof C (fst c) b').
        { rewrite Eb'. apply regular_app. apply reg_last; auto. lia. }
        pose proof (heavyM valueof C (2 * C) (fst c) HC0 ltac:(lia) ltac:(lia) ltac:(lia) b' 0 Hw Hnem Ha
                      Hb2 Hhf Hok Hreg Hnn (head2_ge_nonneg valueof C b' Hnn)) as H.
        rewrite (HPhi (2 * C) (fst c) ltac:(lia) ltac:(lia)) in H. lia.
  Qed.
End ToolsM.


(** ---- 5b. every bin more than half full and fewer than n values above C/2: the sharp bound ---- *)
Section BetaSharp.
  Context {A : Type} (valueof : A -> Z).

  Notation cwM C M b := (wsumM C M (map valueof (contents b))).
  Notation bigc C b := (fsum (bigw C) (map valueof (contents b))).
  Notation nbigb C := (fun c : bin A => negb (bigb valueof C c)).

  Lemma half_full_beta_core C (items : list A) (b : bins A) (n : nat) :
    items <> [] -> Forall (fun x : A => 0 <= valueof x) items ->
    Inv valueof C b items -> bf2 valueof C b -> 0 <= C -> (1 <= n)%nat ->
    Forall (fun y => 0 <= valueof y) (contents b) ->
    Packable C (map valueof items) n -> half_full C b ->
    fsum (bigw C) (map valueof items) < Z.of_nat n ->
    (10 * length b <= 17 * n)%nat.
  Proof.
    intros Hne Hnn HI Hb2 HC Hn Hnnb Hpack Hhf Hbeta.
    pose proof (Inv_lt_2n valueof C b items n HI Hne Hnn Hpack) as H2n.
    destruct (le_lt_dec n 1) as [Hn1|Hn2]; [lia|].
    destruct HI as (Hw & Hf & Hp & Hnem & Hns & Ha).
    pose proof (Permutation_map valueof Hp) as Hpv.
    destruct (Z.eq_dec C 0) as [E0|Hpos].
    { subst C. pose proof (cap0_single valueof b _ n Hw Ha Hnnb Hpv Hpack). lia. }
    assert (HCpos : 0 < C) by lia.
    assert (Hvs : Forall (fun v => 0 <= v) (map valueof items)) by (rewrite Forall_map; exact Hnn).
    rewrite <- (fsum_perm (bigw C) _ _ Hpv) in Hbeta.
    destruct (heavy_choiceM valueof C b HCpos Hw Hnem Ha Hb2 Hhf Hnnb)
      as [Hall|(t1 & c & t2 & M & Eb & Hnb & HM7 & HM2 & HMd & Hlev & Hheavy)].
    - pose proof (hasbig_count valueof C b Hall) as Hcnt. lia.
    - assert (HMpos : 0 < M) by lia.
      pose proof (packable_wsumMb C M _ n HC HMpos HM7 HM2 Hvs Hpack) as Hlight.
      rewrite <- (fsum_perm (WM C M) _ _ Hpv), <- (fsum_perm (bigw C) _ _ Hpv) in Hlight.
      pose proof (xsM_nonneg valueof C b Hhf) as Hxs0.
      set (mm := Z.of_nat (length b)) in *. set (nn := Z.of_nat n) in *.
      set (beta := bigc C b) in *.
      assert (Hpb : M * beta <= M * (nn - 1)) by (apply Z.mul_le_mono_nonneg_l; lia).
      assert (Hinc : In c b) by (rewrite Eb; apply in_or_app; right; left; reflexivity).
      assert (Hhc : C < 2 * fst c) by (unfold half_full in Hhf; rewrite Forall_forall in Hhf; apply Hhf; exact Hinc).
      destruct (Z_le_dec (10 * M - 24 * fst c) (2 * M)) as [HD|HD].
      + (* deficit at most 2/10 *)
        assert (Hz : M * (10 * mm) <= M * (17 * nn)) by lia.
        apply Z.mul_le_mono_pos_l in Hz; [|lia]. unfold mm, nn in Hz. lia.
      + (* the carrier is filled below 4C/7: sizes *)
        assert (Hlow : 7 * M <= 12 * C + 6 /\ 3 * fst c < M) by lia.
        destruct Hlow as [HM6 HlM]. set (l := fst c) in *.
        destruct (Hlev ltac:(lia)) as [Hlev1 Hlev2].
        assert (Hlev2' : Forall (fun bn : bin A => nobig valueof C bn -> 2 * (C - fst bn + 1) <= l) t2).
        { eapply Forall_impl; [|exact Hlev2]. intros bn Hbn Hnbn. specialize (Hbn Hnbn). lia. }
        pose proof (packable_total C _ n Hpack) as Htot. rewrite <- (zsum_perm _ _ Hpv) in Htot.
        pose proof (usum_total valueof C b Hw) as Htotal.
        pose proof (cntb_bigb_le valueof C b) as Hcnt.
        pose proof (cntb_total (bigb valueof C) b) as Hct.
        assert (Hhf' := Hhf). rewrite Eb in Hhf'. unfold half_full in Hhf'.
        apply Forall_app in Hhf'. destruct Hhf' as [Hhf1 Hhf2].
        apply Forall_cons_iff in Hhf2. destruct Hhf2 as [_ Hhf2].
        assert (Hd : 0 <= 4 * C + 14 - 7 * l) by lia.
        pose proof (usum_lower valueof C l t1 HC Hd Hhf1 Hlev1) as Hu1.
        pose proof (usum_lower valueof C l t2 HC Hd Hhf2 Hlev2') as Hu2.
        assert (Ebc : bigb valueof C c = false) by (apply bigb_false; exact Hnb).
        assert (Euc : ub valueof C c = 14 * l - 10 * C).
        { unfold ub. rewrite (bigc_nobig C _ Hnb). fold l. lia. }
        rewrite Eb, usum_app in Htotal. cbn [usum] in Htotal. rewrite <- Eb in Htotal.
        rewrite Eb, !cntb_app in Hct. cbn [cntb] in Hct. rewrite Ebc in Hct. cbn [negb] in Hct.
        rewrite <- Eb in Hct.
        rewrite Eb, !cntb_app in Hcnt. cbn [cntb] in Hcnt. rewrite Ebc in Hcnt. rewrite <- Eb in Hcnt.
        fold mm in Htotal, Hct. fold beta in Htotal, Hcnt.
        set (G1 := cntb (nbigb C) t1) in *. set (G2 := cntb (nbigb C) t2) in *.
        pose proof (cntb_nonneg (nbigb C) t1) as HG1. fold G1 in HG1.
        pose proof (cntb_nonneg (nbigb C) t2) as HG2. fold G2 in HG2.
        destruct (Z_le_dec 2 (G1 + G2)) as [HG|HG].
        * assert (Hp2 : (4 * C + 14 - 7 * l) * 2 <= (4 * C + 14 - 7 * l) * (G1 + G2))
            by (apply Z.mul_le_mono_nonneg_l; lia).
          assert (Hb : 3 * C * beta <= 3 * C * (nn - 1)) by (apply Z.mul_le_mono_nonneg_l; lia).
          assert (Hz : C * (10 * mm) < C * (17 * nn)) by nia.
          apply Z.mul_lt_mono_pos_l in Hz; [|lia]. unfold mm, nn in Hz. lia.
        * unfold mm, nn in *. lia.
  Qed.

  Theorem ff_half_full_beta_sharp_partial C (items : list A) (b : bins A) (n : nat) :
    items <> [] -> Forall (fun x : A => 0 <= valueof x) items ->
    first_fit valueof true C items = Ok b -> Packable C (map valueof items) n ->
    half_full C b -> fsum (bigw C) (map valueof items) < Z.of_nat n ->
    (10 * length b <= 17 * n)%nat.
  Proof.
    intros Hne Hnn Hff Hpack Hhf Hbeta.
    destruct (ff_facts valueof C items b n Hne Hnn Hff Hpack) as (HI & Hb2 & HC & Hn & Hnnb).
    apply (half_full_beta_core C items b n); auto.
  Qed.

  Theorem bf_half_full_beta_sharp_partial C (items : list A) (b : bins A) (n : nat) :
    items <> [] -> Forall (fun x : A => 0 <= valueof x) items ->
    best_fit valueof true C items = Ok b -> Packable C (map valueof items) n ->
    half_full C b -> fsum (bigw C) (map valueof items) < Z.of_nat n ->
    (10 * length b <= 17 * n)%nat.
  Proof.
    intros Hne Hnn Hbf Hpack Hhf Hbeta.
    destruct (bf_facts valueof C items b n Hne Hnn Hbf Hpack) as (HI & Hb2 & HC & Hn & Hnnb).
    apply (half_full_beta_core C items b n); auto.
  Qed.

  (** no bin is a single item a with C/3 < a <= C/2, and fewer than n values exceed C/2: sharp *)
  Lemma nms_beta_core C (items : list A) (b : bins A) (n : nat) :
    items <> [] -> Forall (fun x : A => 0 <= valueof x) items ->
    Inv valueof C b items -> bf2 valueof C b -> 0 <= C -> (1 <= n)%nat ->
    Forall (fun y => 0 <= valueof y) (contents b) ->
    Packable C (map valueof items) n -> no_medium_single valueof C b ->
    fsum (bigw C) (map valueof items) < Z.of_nat n ->
    (10 * length b <= 17 * n)%nat.
  Proof.
    intros Hne Hnn HI Hb2 HC Hn Hnnb Hpack Hno1 Hbeta.
    destruct (Forall_dec (fun bn : bin A => C < 2 * fst bn)
                (fun bn => Z_lt_dec C (2 * fst bn)) b) as [Hhf|Hnhf].
    - apply (half_full_beta_core C items b n); auto.
    - destruct HI as (Hw & Hf & Hp & Hnem & Hns & Ha).
      pose proof (Permutation_map valueof Hp) as Hpv.
      destruct (Z.eq_dec C 0) as [E0|Hpos].
      + subst C. pose proof (cap0_single valueof b _ n Hw Ha Hnnb Hpv Hpack). lia.
      + apply (low_bin_core valueof C b (map valueof items) n); auto. lia.
  Qed.

  Theorem ff_nms_beta_sharp_partial C (items : list A) (b : bins A) (n : nat) :
    items <> [] -> Forall (fun x : A => 0 <= valueof x) items ->
    first_fit valueof true C items = Ok b -> Packable C (map valueof items) n ->
    no_medium_single valueof C b -> fsum (bigw C) (map valueof items) < Z.of_nat n ->
    (10 * length b <= 17 * n)%nat.
  Proof.
    intros Hne Hnn Hff Hpack Hno1 Hbeta.
    destruct (ff_facts valueof C items b n Hne Hnn Hff Hpack) as (HI & Hb2 & HC & Hn & Hnnb).
    apply (nms_beta_core C items b n); auto.
  Qed.

  Theorem bf_nms_beta_sharp_partial C (items : list A) (b : bins A) (n : nat) :
    items <> [] -> Forall (fun x : A => 0 <= valueof x) items ->
    best_fit valueof true C items = Ok b -> Packable C (map valueof items) n ->
    no_medium_single valueof C b -> fsum (bigw C) (map valueof items) < Z.of_nat n ->
    (10 * length b <= 17 * n)%nat.
  Proof.
    intros Hne Hnn Hbf Hpack Hno1 Hbeta.
    destruct (bf_facts valueof C items b n Hne Hnn Hbf Hpack) as (HI & Hb2 & HC & Hn & Hnnb).
    apply (nms_beta_core C items b n); auto.
  Qed.
End BetaSharp.

(** ---- 6. a bin {a}, C/3 < a <= C/2: the additive constant 2 (for n >= 4) ----
    As [medium_core3_gen] of FF17FloorProofs.v, with the weights WM of the deficit carrier c:
    the deficit 10 M - 24 (sum of c) is at most 3 M, and at most the excess of the bin Bg of a
    value g with C/2 < g <= C - a. *)
Section Medium2.
  Context {A : Type} (valueof : A -> Z).

  Notation cwM C M b := (wsumM C M (map valueof (contents b))).

  Lemma WM_medium C M a : 0 <= C -> 12 * C <= 7 * M -> M <= 2 * C -> C < 3 * a -> 2 * a <= C ->
    WM C M a = 24 * a + 7 * M - 12 * C.
  Proof. intros HC H7 H2 Ha3 Ha2. unfold WM. pose proof (bonM_spec C M a). lia. Qed.

  Lemma medium_core2_gen C (b' : bins A) (vs : list Z) (n : nat) a :
    0 < C -> (4 <= n)%nat -> C < 3 * a -> 2 * a <= C ->
    wf valueof b' -> feasible C b' -> all_nonempty b' -> anyfit valueof C b' -> bf2 valueof C b' ->
    Forall (fun y => 0 <= valueof y) (contents b') ->
    Forall (fun c : bin A => C - a + 1 <= fst c) b' ->
    Permutation (a :: map valueof (contents b')) vs -> Packable C vs n ->
    after_ok valueof C (C - a) b' ->
    (10 * S (length b') <= 17 * n + 2)%nat.
  Proof.
    intros HC Hn Ha3 Ha2 Hw' Hfe Hnem' Ha' Hb2' Hnnb' Hlv Hpa Hpack Hafter.
    assert (HC0 : 0 <= C) by lia.
    set (th := C - a) in *.
    set (R := map valueof (contents b')) in *.
    assert (HR : Forall (fun v => 0 <= v) R) by (unfold R; rewrite Forall_map; exact Hnnb').
    assert (Hvs : Forall (fun v => 0 <= v) vs).
    { eapply Permutation_Forall; [exact Hpa|]. constructor; [lia|exact HR]. }
    assert (Hhf : half_full C b').
    { unfold half_full. eapply Forall_impl; [|exact Hlv]. intros c Hc. cbv beta in Hc. lia. }
    pose proof (packable_big C vs n HC0 Hvs Hpack) as Hbig.
    change (zsum (map (bigw C) vs)) with (fsum (bigw C) vs) in Hbig.
    assert (Eba : bigw C a = 0) by (unfold bigw; destruct (C <? 2 * a) eqn:E0; lia).
    assert (Ebeta : fsum (bigw C) vs = fsum (bigw C) R).
    { rewrite <- (fsum_perm (bigw C) _ _ Hpa), fsum_cons. lia. }
    set (e0 := 24 * (th + 1) - 12 * C).
    assert (He0 : 24 <= e0) by (unfold e0, th; lia).
    assert (HEc : Forall (fun c : bin A => e0 <= 24 * fst c - 12 * C) b').
    { eapply Forall_impl; [|exact Hlv]. intros c Hc. cbv beta in Hc. unfold e0. lia. }
    destruct (heavy_choiceM valueof C b' HC Hw' Hnem' Ha' Hb2' Hhf Hnnb')
      as [Hall|(t1 & c & t2 & M & Eb' & Hnb & HM7 & HM2 & HMd & _ & Hheavy)].
    - pose proof (hasbig_count valueof C b' Hall) as Hcnt. fold R in Hcnt. lia.
    - assert (Hinc : In c b') by (rewrite Eb'; apply in_or_app; right; left; reflexivity).
      assert (Hlc : th + 1 <= fst c) by (rewrite Forall_forall in Hlv; apply Hlv; exact Hinc).
      assert (Hnnc : Forall (fun y => 0 <= valueof y) (snd c)).
      { apply (contents_Forall (fun y => 0 <= valueof y)) in Hnnb'.
        rewrite Forall_forall in Hnnb'. apply Hnnb'. exact Hinc. }
      assert (HMpos : 0 < M) by lia.
      pose proof (packable_wsumMb C M vs n HC0 HMpos HM7 HM2 Hvs Hpack) as Hlight.
      rewrite <- (fsum_perm (WM C M) _ _ Hpa), fsum_cons, (WM_medium C M a HC0 HM7 HM2 Ha3 Ha2) in Hlight.
      fold R in Hheavy.
      assert (HD3 : 10 * M - 24 * fst c <= 3 * M) by (unfold th in *; lia).
      set (m' := Z.of_nat (length b')) in *. set (nn := Z.of_nat n) in *.
      set (beta := fsum (bigw C) R) in *. rewrite Ebeta in Hlight, Hbig.
      assert (Hnn4 : 4 <= nn) by (unfold nn; lia).
      assert (Hb0 : 0 <= beta) by (apply fsum_bigw_nonneg).
      pose proof (xsM_nonneg valueof C b' Hhf) as Hxs0.
      assert (Hz : M * (10 * (m' + 1)) < M * (17 * nn + 3)).
      { destruct (Z_le_dec beta (nn - 2)) as [Hb2n|Hb2n].
        - (* at most n - 2 values above C/2 *)
          assert (Hp : M * beta <= M * (nn - 2)) by (apply Z.mul_le_mono_nonneg_l; lia).
          unfold th in *. lia.
        - assert (Hbcase : beta = nn - 1 \/ beta = nn) by lia.
          assert (Hp : M * beta <= M * nn) by (apply Z.mul_le_mono_nonneg_l; lia).
          destruct (existsb (fun g => (C <? 2 * g) && (g <=? th)) vs) eqn:Eg.
          + (* some value g with C/2 < g <= th *)
            apply existsb_exists in Eg. destruct Eg as (g & Hg & Hgc).
            assert (Hg2 : C < 2 * g) by lia. assert (Hgth : g <= th) by lia.
            assert (Hg' : In g R).
            { apply (Permutation_in _ (Permutation_sym Hpa)) in Hg. destruct Hg as [Hg|Hg]; [lia|exact Hg]. }
            unfold R in Hg'. apply in_map_iff in Hg'. destruct Hg' as (y & Ey & Hy).
            destruct (in_contents b' y Hy) as (Bg & HBg & HyB).
            assert (HgB : In g (map valueof (snd Bg))) by (rewrite <- Ey; apply in_map; exact HyB).
            assert (Hbb : bigb valueof C Bg = true).
            { apply bigb_true. unfold hasbig. apply Exists_exists. exists g. split; [exact HgB|lia]. }
            assert (HlB : th + 1 <= fst Bg) by (rewrite Forall_forall in Hlv; apply Hlv; exact HBg).
            pose proof (xsM_lower_in valueof C e0 b' Bg HC0 ltac:(lia) Hw' Hfe Hnnb' HEc HBg Hbb) as Hxs.
            fold R in Hxs. fold beta in Hxs.
            assert (Hkey : 10 * M + 12 * C <= 24 * (fst c + fst Bg)).
            { pose proof HBg as HBg'. rewrite Eb' in HBg'. apply in_app_or in HBg'.
              destruct HBg' as [HB1|HB2].
              - rewrite Eb' in Hw', Ha', Hb2'.
                pose proof (before_common valueof C t1 c t2 Bg HC0 Hw' Ha' Hb2' Hnnc Hnb
                              ltac:(lia) HB1) as Hbc.
                unfold th in *. lia.
              - destruct HB2 as [HB2|HB2].
                + exfalso. subst Bg. apply bigb_false in Hnb. congruence.
                + destruct (Hafter t1 c t2 Bg g Eb' Hnb ltac:(lia) HB2 HgB Hg2 Hgth ltac:(lia))
                    as [Hac|Hac]; unfold th in *; lia. }
            assert (Hp2 : e0 * 2 <= e0 * beta) by (apply Z.mul_le_mono_nonneg_l; lia).
            unfold e0, th in *. lia.
          + (* every value above C/2 is above th *)
            assert (Hnog : forall g, In g vs -> C < 2 * g -> th < g).
            { intros g Hg Hg2. destruct (Z_lt_dec th g) as [Hok|Hbad]; [exact Hok|]. exfalso.
              assert (Hex : existsb (fun g0 => (C <? 2 * g0) && (g0 <=? th)) vs = true).
              { apply existsb_exists. exists g. split; [exact Hg|lia]. }
              congruence. }
            assert (Hina : In a vs) by (eapply Permutation_in; [exact Hpa|left; reflexivity]).
            destruct Hbcase as [Eb1|Eb1].
            * (* the optimal bin of a holds no value above C/2 *)
              pose proof (packable_gpack C vs n Hpack) as HG.
              apply (gpack_perm C vs (a :: R) n (Permutation_sym Hpa)) in HG.
              destruct (gpack_head C a R n HG) as (B & R' & m0 & En & HPR & HaB & HG').
              assert (HBR : Forall (fun v => 0 <= v) (B ++ R'))
                by (eapply Permutation_Forall; [exact HPR|exact HR]).
              apply Forall_app in HBR. destruct HBR as [HB0 HR'0].
              pose proof (zsum_nonneg B HB0) as HzB.
              assert (HBnb : Forall (fun v => 2 * v <= C) B).
              { rewrite Forall_forall. intros v Hv.
                destruct (Z_le_dec (2 * v) C) as [Hok|Hbad]; [exact Hok|]. exfalso.
                assert (Hvvs : In v vs).
                { eapply Permutation_in; [exact Hpa|]. right.
                  eapply Permutation_in; [apply Permutation_sym; exact HPR|].
                  apply in_or_app. left. exact Hv. }
                pose proof (Hnog v Hvvs ltac:(lia)) as Hhuge.
                pose proof (zsum_ge_in B v HB0 Hv). unfold th in *. lia. }
              pose proof (wsumM_nobig_Fb C M B HC0 ltac:(lia) HM7 HM2 HB0 HBnb) as HWB.
              pose proof (packable_wsumMb C M R' m0 HC0 HMpos HM7 HM2 HR'0 (gpack_packable C R' m0 HG'))
                as HWR'.
              pose proof (fsum_bigw_nonneg C B) as HbB.
              rewrite (fsum_perm (WM C M) _ _ HPR), fsum_app in Hlight, Hheavy.
              assert (EbR : beta = fsum (bigw C) B + fsum (bigw C) R').
              { unfold beta. rewrite (fsum_perm (bigw C) _ _ HPR), fsum_app. reflexivity. }
              pose proof (xsM_lower valueof C e0 b' HC0 ltac:(lia) Hw' Hfe Hnnb' HEc) as Hxs.
              fold R in Hxs. fold beta in Hxs.
              assert (Em0 : Z.of_nat m0 = nn - 1) by (unfold nn; lia).
              rewrite Em0 in HWR'.
              assert (Hbr : M * fsum (bigw C) R' <= M * beta)
                by (apply Z.mul_le_mono_nonneg_l; lia).
              assert (Hp3 : e0 * 3 <= e0 * beta) by (apply Z.mul_le_mono_nonneg_l; lia).
              unfold FbM in HWB. unfold e0, th in *. rewrite Eb1 in *. lia.
            * (* n values above C/2, all above th: impossible next to a *)
              exfalso.
              destruct (nonhuge_big_exists C a vs n HC0 Ha3 Ha2 Hvs Hpack Hina
                          ltac:(rewrite Ebeta; fold beta; unfold nn in *; lia))
                as (g & Hg & Hg2 & Hgth).
              pose proof (Hnog g Hg Hg2). unfold th in *. lia. }
      apply Z.mul_lt_mono_pos_l in Hz; [|lia]. unfold m', nn in Hz. lia.
  Qed.
End Medium2.


(** ---- 7. rung 2: 10 m <= 17 n + 2 unconditionally ---- *)
Section Rung2u.
  Context {A : Type} (valueof : A -> Z).

  Lemma ff_medium_core2 C (b : bins A) (vs : list Z) (n : nat) E xa :
    0 < C -> (4 <= n)%nat -> wf valueof b -> feasible C b -> all_nonempty b -> anyfit valueof C b ->
    bf2 valueof C b -> sfit valueof C b ->
    Forall (fun y => 0 <= valueof y) (contents b) ->
    Permutation (map valueof (contents b)) vs -> Packable C vs n ->
    In E b -> snd E = [xa] -> C < 3 * valueof xa -> 2 * valueof xa <= C ->
    (10 * length b <= 17 * n + 2)%nat.
  Proof.
    intros HC Hn Hw Hfe Hnem Ha Hb2 Hsf Hnnb Hpv Hpack HinE EsE Ha3 Ha2.
    destruct (medium_remove valueof C b E xa Hw Hnem Ha Hb2 Hnnb HinE EsE)
      as (b' & Elen & Hw' & Hnem' & Ha' & Hb2' & Hnnb' & Hlv & Hperm & Hsf' & Hsub & _).
    specialize (Hsf' Hsf). rewrite Elen.
    assert (Hfe' : feasible C b').
    { unfold feasible in *. rewrite Forall_forall in *. intros c Hc. apply Hfe. apply Hsub. exact Hc. }
    apply (medium_core2_gen valueof C b' vs n (valueof xa)); auto.
    - etransitivity; [exact Hperm|exact Hpv].
    - apply sfit_after_ok; auto. lia.
  Qed.

  Lemma bf_medium_core2 C (b : bins A) (vs : list Z) (n : nat) E xa :
    0 < C -> (4 <= n)%nat -> wf valueof b -> feasible C b -> all_nonempty b -> anyfit valueof C b ->
    bf2 valueof C b -> bf3 valueof C b ->
    Forall (fun y => 0 <= valueof y) (contents b) ->
    Permutation (map valueof (contents b)) vs -> Packable C vs n ->
    In E b -> snd E = [xa] -> C < 3 * valueof xa -> 2 * valueof xa <= C ->
    (10 * length b <= 17 * n + 2)%nat.
  Proof.
    intros HC Hn Hw Hfe Hnem Ha Hb2 Hb3 Hnnb Hpv Hpack HinE EsE Ha3 Ha2.
    destruct (medium_remove valueof C b E xa Hw Hnem Ha Hb2 Hnnb HinE EsE)
      as (b' & Elen & Hw' & Hnem' & Ha' & Hb2' & Hnnb' & Hlv & Hperm & _ & Hsub & (l1 & l2 & Eb & Eb')).
    rewrite Elen.
    assert (Hfe' : feasible C b').
    { unfold feasible in *. rewrite Forall_forall in *. intros c Hc. apply Hfe. apply Hsub. exact Hc. }
    assert (Hb3' : bf3 valueof C b').
    { rewrite Eb'. apply (bf3_remove valueof C l1 E l2). rewrite <- Eb. exact Hb3. }
    apply (medium_core2_gen valueof C b' vs n (valueof xa)); auto.
    - etransitivity; [exact Hperm|exact Hpv].
    - apply bf3_after_ok; auto. lia.
  Qed.

  Theorem ff_ratio_17_2_uncond_partial C (items : list A) (b : bins A) (n : nat) :
    items <> [] -> Forall (fun x : A => 0 <= valueof x) items ->
    first_fit valueof true C items = Ok b -> Packable C (map valueof items) n ->
    (10 * length b <= 17 * n + 2)%nat.
  Proof.
    intros Hne Hnn Hff Hpack.
    pose proof (ff_sfit valueof C items b Hnn Hff) as Hsf.
    destruct (ff_facts valueof C items b n Hne Hnn Hff Hpack) as (HI & Hb2 & HC & Hn & Hnnb).
    pose proof (Inv_lt_2n valueof C b items n HI Hne Hnn Hpack) as H2n.
    destruct (msb_or_nms valueof C b) as [(E & xa & HinE & EsE & Ha3 & Ha2)|Hno1].
    - destruct HI as (Hw & Hf & Hp & Hnem & Hns & Ha).
      pose proof (Permutation_map valueof Hp) as Hpv.
      destruct (Z.eq_dec C 0) as [E0|Hpos].
      + subst C. pose proof (cap0_single valueof b _ n Hw Ha Hnnb Hpv Hpack). lia.
      + destruct (le_lt_dec 4 n) as [Hn4|Hn3]; [|lia].
        apply (ff_medium_core2 C b (map valueof items) n E xa); auto. lia.
    - pose proof (ratio_17_1_nms_core valueof C items b n Hne Hnn HI Hb2 HC Hn Hnnb Hpack Hno1). lia.
  Qed.

  Theorem bf_ratio_17_2_uncond_partial C (items : list A) (b : bins A) (n : nat) :
    items <> [] -> Forall (fun x : A => 0 <= valueof x) items ->
    best_fit valueof true C items = Ok b -> Packable C (map valueof items) n ->
    (10 * length b <= 17 * n + 2)%nat.
  Proof.
    intros Hne Hnn Hbf Hpack.
    destruct (bf_inv3 valueof C items b Hne Hnn Hbf) as (_ & _ & Hb3).
    destruct (bf_facts valueof C items b n Hne Hnn Hbf Hpack) as (HI & Hb2 & HC & Hn & Hnnb).
    pose proof (Inv_lt_2n valueof C b items n HI Hne Hnn Hpack) as H2n.
    destruct (msb_or_nms valueof C b) as [(E & xa & HinE & EsE & Ha3 & Ha2)|Hno1].
    - destruct HI as (Hw & Hf & Hp & Hnem & Hns & Ha).
      pose proof (Permutation_map valueof Hp) as Hpv.
      destruct (Z.eq_dec C 0) as [E0|Hpos].
      + subst C. pose proof (cap0_single valueof b _ n Hw Ha Hnnb Hpv Hpack). lia.
      + destruct (le_lt_dec 4 n) as [Hn4|Hn3]; [|lia].
        apply (bf_medium_core2 C b (map valueof items) n E xa); auto. lia.
    - pose proof (ratio_17_1_nms_core valueof C items b n Hne Hnn HI Hb2 HC Hn Hnnb Hpack Hno1). lia.
  Qed.

  (** the sharp bound of Dosa and Sgall for every n that is not 4 or 7 mod 10 *)
  Theorem ff_ratio_17_floor_rung2_partial C (items : list A) (b : bins A) (n : nat) :
    items <> [] -> Forall (fun x : A => 0 <= valueof x) items ->
    first_fit valueof true C items = Ok b -> MinBins C (map valueof items) n ->
    (exists k r, n = 10 * k + r /\ r < 10 /\ r <> 4 /\ r <> 7)%nat ->
    (10 * length b <= 17 * n)%nat.
  Proof.
    intros Hne Hnn Hff [Hpack _] (k & r & E & Hr & H4 & H7).
    pose proof (ff_ratio_17_2_uncond_partial C items b n Hne Hnn Hff Hpack) as H2. lia.
  Qed.

  Theorem bf_ratio_17_floor_rung2_partial C (items : list A) (b : bins A) (n : nat) :
    items <> [] -> Forall (fun x : A => 0 <= valueof x) items ->
    best_fit valueof true C items = Ok b -> MinBins C (map valueof items) n ->
    (exists k r, n = 10 * k + r /\ r < 10 /\ r <> 4 /\ r <> 7)%nat ->
    (10 * length b <= 17 * n)%nat.
  Proof.
    intros Hne Hnn Hbf [Hpack _] (k & r & E & Hr & H4 & H7).
    pose proof (bf_ratio_17_2_uncond_partial C items b n Hne Hnn Hbf Hpack) as H2. lia.
  Qed.

  (** goal (1): n = 1 mod 10 *)
  Corollary ff_ratio_17_res1_partial C (items : list A) (b : bins A) (n k : nat) :
    items <> [] -> Forall (fun x : A => 0 <= valueof x) items ->
    first_fit valueof true C items = Ok b -> MinBins C (map valueof items) n ->
    (n = 10 * k + 1)%nat -> (10 * length b <= 17 * n)%nat.
  Proof.
    intros Hne Hnn Hff Hmin E. apply (ff_ratio_17_floor_rung2_partial C items b n); auto.
    exists k, 1%nat. lia.
  Qed.

  Corollary bf_ratio_17_res1_partial C (items : list A) (b : bins A) (n k : nat) :
    items <> [] -> Forall (fun x : A => 0 <= valueof x) items ->
    best_fit valueof true C items = Ok b -> MinBins C (map valueof items) n ->
    (n = 10 * k + 1)%nat -> (10 * length b <= 17 * n)%nat.
  Proof.
    intros Hne Hnn Hbf Hmin E. apply (bf_ratio_17_floor_rung2_partial C items b n); auto.
    exists k, 1%nat. lia.
  Qed.
End Rung2u.


(** ---- 8. the "pure problem" of FF17FloorProofs.v, in the range where the weights decide it ----
    Bins without a value above C/2, all more than half full, the last one filled to l with
    4C/7 <= l <= 2C/3 (any-fit /\ bf2 order, so the other bins are filled above C - l/2); the
    values can be packed into n bins of capacity cap < C/2 (the room left by n values above C/2).
    Then 10 k <= 7 n + 1 for the number k of bins.  (The claim of FF17FloorProofs.v is 10 k <= 7 n;
    the weights WM cannot give more than 10 k <= 7 n + 2 - eps: the last bin weighs 8/10.) *)
Section Pure.
  Context {A : Type} (valueof : A -> Z).

  Lemma pure_problem_partial C cap (t1 : bins A) c (vs : list Z) (n : nat) :
    0 < C -> (1 <= n)%nat -> 2 * cap < C ->
    wf valueof (t1 ++ [c]) -> all_nonempty (t1 ++ [c]) -> anyfit valueof C (t1 ++ [c]) ->
    bf2 valueof C (t1 ++ [c]) -> half_full C (t1 ++ [c]) ->
    Forall (fun y => 0 <= valueof y) (contents (t1 ++ [c])) ->
    nobig valueof C c -> 4 * C <= 7 * fst c -> 3 * fst c <= 2 * C ->
    Permutation (map valueof (contents (t1 ++ [c]))) vs -> Packable cap vs n ->
    (10 * length (t1 ++ [c]) <= 7 * n + 1)%nat.
  Proof.
    intros HC Hn Hcap Hw Hnem Ha Hb2 Hhf Hnnb Hnb H7 H3 Hpv Hpack.
    assert (HC0 : 0 <= C) by lia. set (b := t1 ++ [c]) in *. set (M := 3 * fst c).
    assert (Hinc : In c b) by (unfold b; apply in_or_app; right; left; reflexivity).
    assert (Hhc : C < 2 * fst c) by (unfold half_full in Hhf; rewrite Forall_forall in Hhf; apply Hhf; exact Hinc).
    assert (Hnnc : Forall (fun y => 0 <= valueof y) (snd c)).
    { apply (contents_Forall (fun y => 0 <= valueof y)) in Hnnb.
      rewrite Forall_forall in Hnnb. apply Hnnb. exact Hinc. }
    assert (Hok : okM valueof C M (fst c) b).
    { apply (okM_last valueof C M t1 c []); auto; unfold M; lia. }
    assert (Hreg : regular valueof C (fst c) b).
    { unfold b. apply regular_app. apply reg_last; auto. lia. }
    pose proof (heavyM valueof C M (fst c) HC0 ltac:(unfold M; lia) ltac:(unfold M; lia) ltac:(unfold M; lia)
                  b 0 Hw Hnem Ha Hb2 Hhf Hok Hreg Hnnb (head2_ge_nonneg valueof C b Hnnb)) as Hheavy.
    pose proof (xsM_nonneg valueof C b Hhf) as Hxs0.
    assert (Hvs : Forall (fun a => 0 <= a) vs).
    { eapply Permutation_Forall; [exact Hpv|]. rewrite Forall_map. exact Hnnb. }
    assert (Hlight : wsumM C M vs <= (7 * M - 12) * Z.of_nat n).
    { apply (packable_fsum (WM C M) cap); auto. intros g Hg Hs.
      pose proof (wsumM_small C M g HC0 ltac:(unfold M; lia) ltac:(unfold M; lia) ltac:(unfold M; lia) Hg
                    ltac:(lia)) as Hsm.
      unfold M in *. lia. }
    rewrite <- (fsum_perm (WM C M) _ _ Hpv) in Hlight.
    assert (HPhi : PhiM C M (fst c) 0 = 2 * M).
    { unfold PhiM. pose proof (bonM_spec C M 0). unfold M in *. lia. }
    assert (Hz : M * (10 * Z.of_nat (length b)) < M * (7 * Z.of_nat n + 2)) by lia.
    apply Z.mul_lt_mono_pos_l in Hz; unfold M in *; lia.
  Qed.
End Pure.

(* OPEN: Theorem ff_ratio_17_floor / bf_ratio_17_floor for n = 4, 7 mod 10:
     items <> [] -> Forall (fun x => 0 <= valueof x) items ->
     first_fit valueof true C items = Ok b -> MinBins C (map valueof items) n ->
     (10 * length b <= 17 * n)%nat.
   State of the cases (FF17SharpProofs.v, FF17FloorProofs.v and this file):
     some bin at most half full, not a single item in (C/3, C/2]       10 m <= 17 n      (sharp)
     all bins more than half full, fewer than n values above C/2       10 m <= 17 n      (sharp)
     all bins more than half full, n values above C/2                  17 n + 1   (n = 7 mod 10 open)
     a bin {a}, C/3 < a <= C/2                                         17 n + 2   (n = 4, 7 mod 10 open)
   In the last case (on paper, not formalised) the inequalities of [medium_core2_gen] give 17 n + 1
   when fewer than n values exceed C/2 and the deficit carrier is filled to 4C/7; the obstacle is
   beta = n: then a shares its optimal bin with a value g <= C - a, whose bin Bg is filled above
   C - a, and  m <= 1.7 n + 0.3 + D - excess(Bg) - (n - 2) * 0.8 (C/2 - a) / L  with D = 0.2 the deficit.
   excess(Bg) >= D is all the order invariants give when Bg comes before the carrier, a is close
   to C/2 and the carrier close to 2C/3; the fractional relaxation attains the bound (the other
   bins then solve the pure problem with n - 1 optimal bins up to its weight bound), so
   n = 4 mod 10 needs an integrality argument as well.
   n = 7 mod 10 (m = 17 k + 12, n = 10 k + 7): every slack is below 1/10; Dosa and Sgall count
   the items above C/3 (at most one per optimal bin, two per "dedicated" bin) and use the
   parity of their number.  Not reconstructed. *)

Print Assumptions ff_half_full_1_partial.
Print Assumptions bf_half_full_1_partial.
Print Assumptions ff_ratio_17_1_nms_partial.
Print Assumptions bf_ratio_17_1_nms_partial.
Print Assumptions ff_ratio_17_floor_nms1_partial.
Print Assumptions bf_ratio_17_floor_nms1_partial.
Print Assumptions ff_ratio_17_2_uncond_partial.
Print Assumptions bf_ratio_17_2_uncond_partial.
Print Assumptions ff_ratio_17_floor_rung2_partial.
Print Assumptions bf_ratio_17_floor_rung2_partial.
Print Assumptions ff_ratio_17_res1_partial.
Print Assumptions bf_ratio_17_res1_partial.
Print Assumptions pure_problem_partial.
Print Assumptions ff_half_full_beta_sharp_partial.
Print Assumptions bf_half_full_beta_sharp_partial.
Print Assumptions ff_nms_beta_sharp_partial.
Print Assumptions bf_nms_beta_sharp_partial.
