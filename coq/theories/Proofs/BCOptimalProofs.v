(** Optimality of the bin-completion model (Model/BinCompletion.v): [bc_optimal_statement] is
    PROVED ([bc_optimal]), not refuted.
    Steps: (1) packings as lists of groups; (2) a dominance relation on completions and its
    soundness (exchange argument); (3) [is_dominant] implies it; (4) the survivors of
    [check_for_dominance] dominate every candidate; (5) [find_bin_completions] is complete up to
    dominance; (6) the branch-and-bound loops keep a branch that can reach any packing better
    than the incumbent; (7) [bc_optimal]. *)
From Prtpy Require Import Base.Prelude Model.Binner Model.Packing Model.CG Model.BinCompletion
  Spec.Partition Proofs.BaseLemmas Proofs.BinnerLemmas Proofs.PackingProofs Proofs.CoveringProofs
  Proofs.BCProofs.
From Coq Require Import ZifyBool.

Notation nonzero := (fun v : Z => negb (v =? 0)).

(** the statement to decide *)
Definition bc_optimal_statement : Prop :=
  forall C fuel items b, 0 < C -> Forall (fun v => 0 <= v) items ->
    bin_completion true C fuel items = Ok b ->
    MinBins C (filter nonzero items) (length b).

(** ---- 1. packings as lists of groups ---- *)

Definition GPack (C : Z) (vs : list Z) (n : nat) : Prop :=
  exists G : list (list Z), length G = n /\ Permutation (concat G) vs /\
                            Forall (fun g => zsum g <= C) G.

Lemma gpack_packable C vs n : GPack C vs n -> Packable C vs n.
Proof.
  intros (G & HL & HP & HF). rewrite <- HL.
  replace (length G) with (length (map (fun g : list Z => (zsum g, g)) G)) by apply map_length.
  apply packing_packable. unfold is_packing. repeat split.
  - unfold contents, lists. rewrite map_map. cbn [snd]. rewrite map_id. exact HP.
  - unfold feasible. rewrite Forall_map. cbn [fst]. exact HF.
  - unfold wf. rewrite Forall_map. apply Forall_forall. intros g _.
    unfold wf_bin. cbn [fst snd]. rewrite map_zid. reflexivity.
Qed.

Lemma zsum_cons x l : zsum (x :: l) = x + zsum l.
Proof. reflexivity. Qed.

Lemma concat_update_cons v i (G : list (list Z)) : (i < length G)%nat ->
  Permutation (concat (update i (cons v) G)) (v :: concat G).
Proof.
  intros H. destruct (update_split i (cons v) G H) as (l1 & g & l2 & E1 & _ & E3).
  rewrite E3, E1, !concat_app. cbn [concat]. perm_solve.
Qed.

Lemma lrun_groups : forall ps (G : list (list Z)),
  Forall (fun p : Z * nat => (snd p < length G)%nat) ps ->
  exists G', length G' = length G /\ Permutation (concat G') (map fst ps ++ concat G) /\
             lrun ps (map zsum G) = map zsum G'.
Proof.
  induction ps as [|[v i] t IH]; intros G HF.
  - exists G. repeat split. apply Permutation_refl.
  - inversion HF as [|p l Hp Ht]; subst p l. cbn [snd] in Hp.
    destruct (IH (update i (cons v) G)) as (G' & HL & HP & HR).
    { rewrite update_length. exact Ht. }
    exists G'. rewrite update_length in HL. repeat split; [exact HL| |].
    + apply Permutation_trans with (map fst t ++ concat (update i (cons v) G)); [exact HP|].
      cbn [map fst]. apply Permutation_trans with (map fst t ++ v :: concat G).
      * apply Permutation_app_head. apply concat_update_cons. exact Hp.
      * perm_solve.
    + unfold lrun in *. cbn [fold_left]. rewrite <- HR. f_equal. unfold lstep. cbn [fst snd].
      symmetry. apply map_update. intros g. rewrite zsum_cons. lia.
Qed.

Lemma map_zsum_repeat_nil k : map zsum (repeat (@nil Z) k) = repeat 0 k.
Proof. induction k as [|k IH]; cbn [repeat map]; [reflexivity|]. rewrite IH. reflexivity. Qed.

Lemma concat_repeat_nil k : concat (repeat (@nil Z) k) = [].
Proof. induction k as [|k IH]; cbn [repeat concat]; [reflexivity|]. exact IH. Qed.

Lemma packable_gpack C vs n : Packable C vs n -> GPack C vs n.
Proof.
  intros (s & HA & HF). apply Attainable_pairs in HA. destruct HA as (ps & Hm & Hlt & Hs).
  destruct (lrun_groups ps (repeat [] n)) as (G' & HL & HP & HR).
  { rewrite repeat_length. exact Hlt. }
  rewrite repeat_length in HL. rewrite map_zsum_repeat_nil, Hs in HR.
  rewrite concat_repeat_nil, app_nil_r, Hm in HP.
  exists G'. repeat split; [exact HL|exact HP|].
  rewrite HR in HF. rewrite Forall_map in HF. exact HF.
Qed.

Lemma gpack_iff C vs n : Packable C vs n <-> GPack C vs n.
Proof. split; [apply packable_gpack|apply gpack_packable]. Qed.

Lemma gpack_perm C vs vs' n : Permutation vs vs' -> GPack C vs n -> GPack C vs' n.
Proof.
  intros HP (G & HL & HG & HF). exists G. repeat split; [exact HL| |exact HF].
  apply Permutation_trans with vs; assumption.
Qed.

Lemma in_concat_split (a : Z) (G : list (list Z)) : In a (concat G) ->
  exists G1 h1 h2 G2, G = G1 ++ (h1 ++ a :: h2) :: G2.
Proof.
  intros H. apply in_concat in H. destruct H as (h & Hh & Ha).
  apply in_split in Hh. destruct Hh as (G1 & G2 & EG).
  apply in_split in Ha. destruct Ha as (h1 & h2 & Eh). subst h.
  exists G1, h1, h2, G2. exact EG.
Qed.

(** an item may be replaced by items of no larger total *)
Lemma gpack_replace C a g R n : zsum g <= a -> GPack C (a :: R) n -> GPack C (g ++ R) n.
Proof.
  intros Hg (G & HL & HP & HF).
  assert (Hin : In a (concat G)).
  { eapply Permutation_in; [apply Permutation_sym; exact HP|left; reflexivity]. }
  destruct (in_concat_split a G Hin) as (G1 & h1 & h2 & G2 & EG). subst G.
  exists (G1 ++ (h1 ++ g ++ h2) :: G2). repeat split.
  - rewrite <- HL, !app_length. reflexivity.
  - rewrite concat_app in *. cbn [concat] in *.
    assert (HR : Permutation (concat G1 ++ h1 ++ h2 ++ concat G2) R).
    { apply (Permutation_cons_inv (a := a)).
      apply Permutation_trans with (concat G1 ++ (h1 ++ a :: h2) ++ concat G2); [perm_solve|exact HP]. }
    apply Permutation_trans with (g ++ concat G1 ++ h1 ++ h2 ++ concat G2); [perm_solve|].
    apply Permutation_app_head. exact HR.
  - apply Forall_app in HF. destruct HF as [HF1 HF2].
    inversion HF2 as [|h l Hh HF3]; subst h l.
    apply Forall_app. split; [exact HF1|]. constructor; [|exact HF3].
    rewrite !zsum_app in *. rewrite zsum_cons in Hh. lia.
Qed.

Lemma gpack_remove C a R n : 0 <= a -> GPack C (a :: R) n -> GPack C R n.
Proof. intros Ha H. apply (gpack_replace C a [] R n); [exact Ha|exact H]. Qed.

Lemma gpack_remove_all C A : Forall (fun a => 0 <= a) A ->
  forall R n, GPack C (A ++ R) n -> GPack C R n.
Proof.
  induction 1 as [|a A' Ha HA IH]; intros R n H; [exact H|].
  apply IH. apply (gpack_remove C a); [exact Ha|exact H].
Qed.

(** the bin of the first item *)
Lemma gpack_head C x R n : GPack C (x :: R) n ->
  exists B R' m, n = S m /\ Permutation R (B ++ R') /\ x + zsum B <= C /\ GPack C R' m.
Proof.
  intros (G & HL & HP & HF).
  assert (Hin : In x (concat G)).
  { eapply Permutation_in; [apply Permutation_sym; exact HP|left; reflexivity]. }
  destruct (in_concat_split x G Hin) as (G1 & h1 & h2 & G2 & EG). subst G.
  apply Forall_app in HF. destruct HF as [HF1 HF2].
  inversion HF2 as [|h l Hh HF3]; subst h l.
  exists (h1 ++ h2), (concat (G1 ++ G2)), (length (G1 ++ G2)). repeat split.
  - rewrite <- HL, !app_length. cbn [length]. lia.
  - rewrite concat_app in *. cbn [concat] in HP. apply (Permutation_cons_inv (a := x)).
    apply Permutation_trans with (concat G1 ++ (h1 ++ x :: h2) ++ concat G2);
      [apply Permutation_sym; exact HP|perm_solve].
  - rewrite !zsum_app in *. rewrite zsum_cons in Hh. lia.
  - exists (G1 ++ G2). repeat split; [apply Permutation_refl|].
    apply Forall_app. split; assumption.
Qed.

Lemma gpack_add_bin C g R n : zsum g <= C -> GPack C R n -> GPack C (g ++ R) (S n).
Proof.
  intros Hg (G & HL & HP & HF). exists (g :: G). repeat split.
  - cbn [length]. rewrite HL. reflexivity.
  - cbn [concat]. apply Permutation_app_head. exact HP.
  - constructor; assumption.
Qed.

(** ---- 2. dominance between completions and the exchange argument ---- *)

(** the items of B can be packed into bins whose capacities are the items of A *)
Definition Dom (A B : list Z) : Prop :=
  exists G, Forall2 (fun a g => zsum g <= a) A G /\ Permutation (concat G) B.

Lemma pos_zsum_nil l : Forall (fun v => 0 < v) l -> zsum l <= 0 -> l = [].
Proof.
  intros HF Hs. destruct l as [|x t]; [reflexivity|]. exfalso.
  inversion HF as [|y l Hx Ht]; subst y l. rewrite zsum_cons in Hs.
  assert (H0 : 0 <= zsum t).
  { apply zsum_nonneg. eapply Forall_impl; [|exact Ht]. intros v Hv. cbv beta in Hv. lia. }
  lia.
Qed.

(** an item present on both sides can be cancelled *)
Lemma dom_cancel a A' g G' B :
  zsum g <= a -> Forall2 (fun a g => zsum g <= a) A' G' ->
  Permutation (g ++ concat G') B -> In a B -> Forall (fun v => 0 < v) B ->
  exists B', Permutation B (a :: B') /\ Dom A' B'.
Proof.
  intros Hg HF2 HP Hin Hpos.
  assert (Hin' : In a (g ++ concat G')).
  { eapply Permutation_in; [apply Permutation_sym; exact HP|exact Hin]. }
  apply in_app_or in Hin'. destruct Hin' as [Hin'|Hin'].
  - apply in_split in Hin'. destruct Hin' as (g1 & g2 & Eg). subst g.
    assert (Hp12 : Forall (fun v => 0 < v) (g1 ++ g2)).
    { apply (Permutation_Forall (Permutation_sym HP)) in Hpos.
      apply Forall_app in Hpos. destruct Hpos as [Hpos _].
      apply Forall_app in Hpos. destruct Hpos as [Hp1 Hp2].
      inversion Hp2 as [|y l _ Hp3]; subst y l. apply Forall_app. split; assumption. }
    assert (E : g1 ++ g2 = []).
    { apply pos_zsum_nil; [exact Hp12|]. rewrite !zsum_app in *. rewrite zsum_cons in Hg. lia. }
    apply app_eq_nil in E. destruct E as [E1 E2]. subst g1 g2. cbn [app] in HP.
    exists (concat G'). split; [apply Permutation_sym; exact HP|].
    exists G'. split; [exact HF2|apply Permutation_refl].
  - destruct (in_concat_split a G' Hin') as (G1 & h1 & h2 & G2 & EG). subst G'.
    apply Forall2_app_inv_r in HF2. destruct HF2 as (A1 & A2 & HF1 & HF3 & EA).
    inversion HF3 as [|d h A3 G3 Hd HF4]; subst. 
    exists (concat (G1 ++ (h1 ++ g ++ h2) :: G2)). split.
    + apply Permutation_trans with (g ++ concat (G1 ++ (h1 ++ a :: h2) :: G2));
        [apply Permutation_sym; exact HP|].
      rewrite !concat_app. cbn [concat]. perm_solve.
    + exists (G1 ++ (h1 ++ g ++ h2) :: G2). split; [|apply Permutation_refl].
      apply Forall2_app; [exact HF1|]. constructor; [|exact HF4].
      rewrite !zsum_app in *. rewrite zsum_cons in Hd. lia.
Qed.

(** exchange: if the items outside B can be packed into n bins then so can the items outside A *)
Lemma dom_exchange C n : forall A B RA RB,
  Forall (fun v => 0 < v) B -> Permutation (A ++ RA) (B ++ RB) -> Dom A B ->
  GPack C RB n -> GPack C RA n.
Proof.
  induction A as [|a A' IH]; intros B RA RB Hpos HP (G & HF2 & HG) HK.
  - inversion HF2; subst. cbn [concat] in HG. apply Permutation_nil in HG. subst B.
    cbn [app] in HP. apply (gpack_perm C RB); [apply Permutation_sym; exact HP|exact HK].
  - inversion HF2 as [|a0 g A0 G' Hg HF3]; subst. cbn [concat] in HG.
    destruct (in_dec Z.eq_dec a B) as [Hin|Hnin].
    + destruct (dom_cancel a A' g G' B Hg HF3 HG Hin Hpos) as (B' & HB & HD).
      apply (IH B' RA RB); [| |exact HD|exact HK].
      * apply (Permutation_Forall HB) in Hpos. inversion Hpos; assumption.
      * apply (Permutation_cons_inv (a := a)).
        apply Permutation_trans with (B ++ RB); [exact HP|].
        change (a :: B' ++ RB) with ((a :: B') ++ RB). apply Permutation_app_tail. exact HB.
    + assert (HinR : In a RB).
      { assert (H : In a (B ++ RB)) by (eapply Permutation_in; [exact HP|left; reflexivity]).
        apply in_app_or in H. destruct H as [H|H]; [contradiction|exact H]. }
      apply in_split in HinR. destruct HinR as (R1 & R2 & ER). subst RB.
      apply (IH (concat G') RA (g ++ R1 ++ R2)).
      * apply (Permutation_Forall (Permutation_sym HG)) in Hpos.
        apply Forall_app in Hpos. destruct Hpos as [_ Hpos]. exact Hpos.
      * apply (Permutation_cons_inv (a := a)).
        apply Permutation_trans with (B ++ R1 ++ a :: R2); [exact HP|].
        apply Permutation_trans with ((g ++ concat G') ++ R1 ++ a :: R2);
          [apply Permutation_app_tail, Permutation_sym; exact HG|perm_solve].
      * exists G'. split; [exact HF3|apply Permutation_refl].
      * apply (gpack_replace C a g (R1 ++ R2) n Hg).
        apply (gpack_perm C (R1 ++ a :: R2)); [perm_solve|exact HK].
Qed.

(** ---- 3. the dominance test implies dominance ---- *)

Lemma place_in_slots_spec x : forall caps caps', In caps' (place_in_slots x caps) ->
  exists p c s, caps = p ++ c :: s /\ caps' = p ++ (c - x) :: s /\ x <= c.
Proof.
  induction caps as [|c t IH]; intros caps' H; cbn [place_in_slots] in H; [destruct H|].
  apply in_app_or in H. destruct H as [H|H].
  - destruct (x <=? c) eqn:E; [|destruct H]. destruct H as [H|H]; [|destruct H]. subst caps'.
    exists [], c, t. repeat split. lia.
  - apply in_map_iff in H. destruct H as (r & Er & Hr). subst caps'.
    destruct (IH r Hr) as (p & c' & s & E1 & E2 & Hle). subst t r.
    exists (c :: p), c', s. repeat split. exact Hle.
Qed.

Lemma dom_nil caps : Forall (fun c => 0 <= c) caps -> Dom caps [].
Proof.
  intros Hnn. exists (map (fun _ => []) caps). split.
  - induction Hnn as [|c cs Hc _ IHc]; cbn [map]; constructor; [exact Hc|exact IHc].
  - clear Hnn. induction caps as [|c cs IHc]; [apply Permutation_refl|].
    cbn [map concat app]. exact IHc.
Qed.

Lemma fits_some_dom : forall l caps, fits_some l caps = true -> Forall (fun c => 0 <= c) caps ->
  Dom caps l.
Proof.
  induction l as [|x t IH]; intros caps H Hnn.
  - apply dom_nil. exact Hnn.
  - cbn [fits_some] in H. apply existsb_exists in H. destruct H as (caps' & Hin & Hfit).
    destruct (place_in_slots_spec x caps caps' Hin) as (p & c & s & E1 & E2 & Hle). subst caps caps'.
    apply Forall_app in Hnn. destruct Hnn as [Hnp Hns].
    inversion Hns as [|c0 s0 Hc Hs]; subst c0 s0.
    destruct (IH (p ++ (c - x) :: s) Hfit) as (G & HF2 & HG).
    { apply Forall_app. split; [exact Hnp|]. constructor; [lia|exact Hs]. }
    apply Forall2_app_inv_l in HF2. destruct HF2 as (Gp & G2 & HFp & HF3 & EG).
    inversion HF3 as [|c0 g s0 Gs Hg HFs]; subst.
    exists (Gp ++ (x :: g) :: Gs). split.
    + apply Forall2_app; [exact HFp|]. constructor; [|exact HFs]. rewrite zsum_cons. lia.
    + rewrite concat_app in *. cbn [concat] in *.
      apply Permutation_trans with (x :: concat Gp ++ g ++ concat Gs); [perm_solve|].
      apply perm_skip. exact HG.
Qed.

(** completion A of the bin is at least as good as completion B, for the remaining items M *)
Definition Better (C : Z) (M A B : list Z) : Prop :=
  forall n, GPack C (list_without M B) n -> GPack C (list_without M A) n.

Lemma better_refl C M A : Better C M A A.
Proof. intros n H. exact H. Qed.

Lemma better_trans C M A B D : Better C M A B -> Better C M B D -> Better C M A D.
Proof. intros H1 H2 n H. apply H1, H2, H. Qed.

Lemma sub_multiset_pos c l : Forall (fun v => 0 < v) l -> sub_multiset c l = true ->
  Forall (fun v => 0 < v) c.
Proof.
  intros Hpos H. apply list_without_perm in H.
  apply (Permutation_Forall (Permutation_sym H)) in Hpos.
  apply Forall_app in Hpos. destruct Hpos as [Hc _]. exact Hc.
Qed.

Lemma pos_nonneg l : Forall (fun v => 0 < v) l -> Forall (fun v => 0 <= v) l.
Proof. apply Forall_impl. intros v Hv. lia. Qed.

(** (a) soundness of the dominance test *)
Theorem is_dominant_sound C M A B :
  Forall (fun v => 0 < v) M -> sub_multiset A M = true -> sub_multiset B M = true ->
  is_dominant A B = true -> Better C M A B.
Proof.
  intros Hpos HA HB Hdom n HK.
  pose proof (list_without_perm A M HA) as HPA. pose proof (list_without_perm B M HB) as HPB.
  pose proof (sub_multiset_pos A M Hpos HA) as HposA.
  pose proof (sub_multiset_pos B M Hpos HB) as HposB.
  unfold is_dominant in Hdom. destruct B as [|h2 B'].
  - rewrite list_without_nil in HK. apply (gpack_remove_all C A (pos_nonneg A HposA)).
    apply (gpack_perm C M); [apply Permutation_sym; exact HPA|exact HK].
  - destruct A as [|h1 A']; [discriminate Hdom|].
    destruct (sub_multiset (h2 :: B') (h1 :: A')) eqn:Esub.
    + apply sub_multiset_spec in Esub. destruct Esub as (rest & Hrest).
      apply (gpack_remove_all C rest).
      * apply pos_nonneg. apply (Permutation_Forall (Permutation_sym Hrest)) in HposA.
        apply Forall_app in HposA. destruct HposA as [_ Hr]. exact Hr.
      * apply (gpack_perm C (list_without M (h2 :: B'))); [|exact HK].
        apply (Permutation_app_inv_l (h2 :: B')).
        apply Permutation_trans with M; [exact HPB|].
        apply Permutation_trans with ((h1 :: A') ++ list_without M (h1 :: A'));
          [apply Permutation_sym; exact HPA|].
        rewrite app_assoc. apply Permutation_app_tail. apply Permutation_sym. exact Hrest.
    + destruct (h1 <? h2); [discriminate Hdom|].
      apply (dom_exchange C n (h1 :: A') (h2 :: B') _ (list_without M (h2 :: B'))).
      * exact HposB.
      * apply Permutation_trans with M; [exact HPA|apply Permutation_sym; exact HPB].
      * apply fits_some_dom; [exact Hdom|apply pos_nonneg; exact HposA].
      * exact HK.
Qed.

(** ---- 4. the survivors of [check_for_dominance] dominate every candidate ---- *)

Lemma zlist_eqb_refl x : zlist_eqb x x = true.
Proof. induction x as [|a t IH]; cbn [zlist_eqb]; [reflexivity|]. rewrite Z.eqb_refl, IH. reflexivity. Qed.

Lemma In_mem_list x l : In x l -> mem_list x l = true.
Proof.
  induction l as [|y t IH]; intros H; [destruct H|]. cbn [mem_list].
  destruct H as [H|H]; [subst y; rewrite zlist_eqb_refl; reflexivity|].
  rewrite (IH H). apply orb_true_r.
Qed.

Lemma mem_list_false x l : mem_list x l = false -> ~ In x l.
Proof. intros H Hin. apply In_mem_list in Hin. congruence. Qed.

Lemma zlist_dec (x y : list Z) : {x = y} + {x <> y}.
Proof. apply list_eq_dec. apply Z.eq_dec. Qed.

Lemma remove_first_list_keep c d : forall l, In c l -> c <> d -> In c (remove_first_list d l).
Proof.
  induction l as [|y t IH]; intros H Hne; [destruct H|]. cbn [remove_first_list].
  destruct (zlist_eqb d y) eqn:E.
  - apply zlist_eqb_eq in E. subst y. destruct H as [H|H]; [congruence|exact H].
  - destruct H as [H|H]; [left; exact H|right; apply IH; assumption].
Qed.

Lemma fold_remove_first_list_keep c : forall ds l, In c l -> ~ In c ds ->
  In c (fold_left (fun acc d => remove_first_list d acc) ds l).
Proof.
  induction ds as [|d ds IH]; intros l H Hn; cbn [fold_left]; [exact H|].
  apply IH.
  - apply remove_first_list_keep; [exact H|]. intros E. apply Hn. left. symmetry. exact E.
  - intros Hin. apply Hn. right. exact Hin.
Qed.

Section CFD.
  Variable R : list Z -> list Z -> Prop.
  Variable L : list (list Z).
  Hypothesis R_refl : forall a, R a a.
  Hypothesis R_trans : forall a b c, R a b -> R b c -> R a c.
  Hypothesis R_dom : forall a b, In a L -> In b L -> is_dominant a b = true -> R a b.

  (** every dropped candidate is dominated by a candidate that is not dropped *)
  Definition cfd_inv (D : list (list Z)) : Prop :=
    forall d, In d D -> exists s, In s L /\ ~ In s D /\ R s d.

  Lemma cfd_inv_add D a b : cfd_inv D -> In a L -> ~ In a D -> a <> b -> R a b ->
    cfd_inv (D ++ [b]).
  Proof.
    intros HI HaL HaD Hne Hab d Hd.
    assert (HaD' : ~ In a (D ++ [b])).
    { intros H. apply in_app_or in H. destruct H as [H|[H|[]]]; [contradiction|congruence]. }
    apply in_app_or in Hd. destruct Hd as [Hd|[Hd|[]]].
    - destruct (HI d Hd) as (s & HsL & HsD & Hsd).
      destruct (zlist_dec s b) as [E|NE].
      + subst s. exists a. repeat split; [exact HaL|exact HaD'|].
        apply (R_trans a b d); assumption.
      + exists s. repeat split; [exact HsL| |exact Hsd].
        intros H. apply in_app_or in H. destruct H as [H|[H|[]]]; [contradiction|congruence].
    - subst d. exists a. repeat split; assumption.
  Qed.

  Lemma cfd_inner_inv l1 : forall rest D,
    (forall l2, In l2 rest -> In l2 L) -> In l1 L -> ~ In l1 rest -> ~ In l1 D ->
    cfd_inv D -> cfd_inv (cfd_inner l1 rest D).
  Proof.
    induction rest as [|l2 t IH]; intros D HrL H1L H1r H1D HI; cbn [cfd_inner]; [exact HI|].
    assert (HtL : forall l, In l t -> In l L) by (intros l Hl; apply HrL; right; exact Hl).
    assert (H1t : ~ In l1 t) by (intros H; apply H1r; right; exact H).
    assert (Hne : l1 <> l2) by (intros E; apply H1r; left; symmetry; exact E).
    assert (H2L : In l2 L) by (apply HrL; left; reflexivity).
    destruct (mem_list l2 D) eqn:Em; [apply IH; assumption|].
    apply mem_list_false in Em.
    destruct (is_dominant l1 l2) eqn:E12.
    - apply IH; try assumption.
      + intros H. apply in_app_or in H. destruct H as [H|[H|[]]]; [contradiction|congruence].
      + apply (cfd_inv_add D l1 l2); try assumption. apply R_dom; assumption.
    - destruct (is_dominant l2 l1) eqn:E21; [|apply IH; assumption].
      apply (cfd_inv_add D l2 l1); try assumption; [congruence|]. apply R_dom; assumption.
  Qed.

  Lemma cfd_outer_inv : forall l D,
    (forall c, In c l -> In c L) -> NoDup l -> cfd_inv D -> cfd_inv (cfd_outer l D).
  Proof.
    induction l as [|l1 t IH]; intros D HlL Hnd HI; cbn [cfd_outer]; [exact HI|].
    destruct t as [|l2 t']; [exact HI|].
    inversion Hnd as [|x xs H1t Hndt]; subst x xs.
    assert (HtL : forall c, In c (l2 :: t') -> In c L) by (intros c Hc; apply HlL; right; exact Hc).
    destruct (mem_list l1 D) eqn:Em; [apply IH; assumption|].
    apply mem_list_false in Em. apply IH; [exact HtL|exact Hndt|].
    apply cfd_inner_inv; try assumption. apply HlL. left. reflexivity.
  Qed.
End CFD.

Theorem check_for_dominance_complete (R : list Z -> list Z -> Prop) L :
  (forall a, R a a) -> (forall a b c, R a b -> R b c -> R a c) ->
  (forall a b, In a L -> In b L -> is_dominant a b = true -> R a b) -> NoDup L ->
  forall c, In c L -> exists s, In s (check_for_dominance L) /\ R s c.
Proof.
  intros Hrefl Htrans Hdom Hnd c Hc.
  assert (HI : cfd_inv R L (cfd_outer L [])).
  { apply (cfd_outer_inv R L Htrans Hdom L []); [intros x Hx; exact Hx|exact Hnd|].
    intros d Hd. destruct Hd. }
  assert (Hkeep : forall s, In s L -> ~ In s (cfd_outer L []) -> In s (check_for_dominance L)).
  { intros s Hs Hn. unfold check_for_dominance. destruct L as [|a [|b t]]; try exact Hs.
    apply (Permutation_in _ (Permutation_sym (sort_desc_perm zsum _))).
    apply fold_remove_first_list_keep; assumption. }
  destruct (in_dec zlist_dec c (cfd_outer L [])) as [Hin|Hnin].
  - destruct (HI c Hin) as (s & HsL & HsD & Hsc). exists s. split; [|exact Hsc].
    apply Hkeep; assumption.
  - exists c. split; [apply Hkeep; assumption|apply Hrefl].
Qed.

Lemma unique_list_aux_spec : forall l seen,
  NoDup (unique_list_aux l seen) /\
  (forall c, In c (unique_list_aux l seen) -> ~ In c seen) /\
  (forall c, In c l -> In c (unique_list_aux l seen) \/ In c seen).
Proof.
  induction l as [|x t IH]; intros seen; cbn [unique_list_aux].
  - repeat split; [constructor|intros c []|intros c []].
  - destruct (mem_list x seen) eqn:E.
    + destruct (IH seen) as (H1 & H2 & H3). repeat split; [exact H1|exact H2|].
      intros c [Hc|Hc]; [subst c; right; apply mem_list_In; exact E|apply H3; exact Hc].
    + apply mem_list_false in E. destruct (IH (x :: seen)) as (H1 & H2 & H3). repeat split.
      * constructor; [|exact H1]. intros H. apply (H2 x H). left. reflexivity.
      * intros c [Hc|Hc]; [subst c; exact E|]. intros Hs. apply (H2 c Hc). right. exact Hs.
      * intros c [Hc|Hc]; [left; left; exact Hc|].
        destruct (H3 c Hc) as [H|[H|H]]; [left; right; exact H|left; left; exact H|right; exact H].
Qed.

Lemma unique_list_NoDup l : NoDup (unique_list l).
Proof. apply unique_list_aux_spec. Qed.

Lemma unique_list_complete c l : In c l -> In c (unique_list l).
Proof.
  intros H. destruct (unique_list_aux_spec l []) as (_ & _ & H3).
  destruct (H3 c H) as [H'|[]]. exact H'.
Qed.

(** ---- 5. completeness of the completion generator, up to dominance ---- *)

Lemma combos_complete : forall l B rest, Permutation (B ++ rest) l ->
  exists fc, In fc (combos (length B) l) /\ Permutation fc B.
Proof.
  induction l as [|x t IH]; intros B rest HP.
  - apply Permutation_sym, Permutation_nil, app_eq_nil in HP. destruct HP as [E _]. subst B.
    exists []. split; [left; reflexivity|apply Permutation_refl].
  - destruct B as [|b0 B0] eqn:EB.
    { exists []. split; [left; reflexivity|apply Permutation_refl]. }
    rewrite <- EB in *. assert (HlB : length B = S (length B0)) by (subst B; reflexivity).
    destruct (in_dec Z.eq_dec x B) as [Hin|Hnin].
    + apply in_split in Hin. destruct Hin as (B1 & B2 & E). 
      assert (HP' : Permutation ((B1 ++ B2) ++ rest) t).
      { apply (Permutation_cons_inv (a := x)).
        apply Permutation_trans with (B ++ rest); [rewrite E; perm_solve|exact HP]. }
      destruct (IH _ _ HP') as (fc & Hfc & Hperm). exists (x :: fc). split.
      * assert (El : length B = S (length (B1 ++ B2))).
        { rewrite E, !app_length. cbn [length]. lia. }
        rewrite El. cbn [combos]. apply in_or_app. left. apply in_map. exact Hfc.
      * rewrite E. apply Permutation_trans with (x :: B1 ++ B2); [apply perm_skip; exact Hperm|].
        apply Permutation_middle.
    + assert (HinR : In x rest).
      { assert (H : In x (B ++ rest)).
        { eapply Permutation_in; [apply Permutation_sym; exact HP|left; reflexivity]. }
        apply in_app_or in H. destruct H as [H|H]; [contradiction|exact H]. }
      apply in_split in HinR. destruct HinR as (R1 & R2 & E). subst rest.
      assert (HP' : Permutation (B ++ R1 ++ R2) t).
      { apply (Permutation_cons_inv (a := x)).
        apply Permutation_trans with (B ++ R1 ++ x :: R2); [perm_solve|exact HP]. }
      destruct (IH _ _ HP') as (fc & Hfc & Hperm). exists fc. split; [|exact Hperm].
      rewrite HlB in *. cbn [combos]. apply in_or_app. right. exact Hfc.
Qed.

Lemma sub_is_dominant A B : sub_multiset B A = true -> is_dominant A B = true.
Proof.
  intros H. unfold is_dominant. destruct B as [|h2 B']; [reflexivity|].
  destruct A as [|h1 A']; [cbn in H; discriminate H|]. rewrite H. reflexivity.
Qed.

Lemma first_fitting_zero x C items : Forall (fun v => 0 < v) items ->
  first_fitting x C items = 0 -> forall i, In i items -> C < x + i.
Proof.
  induction 1 as [|a t Ha _ IH]; intros H i Hi; [destruct Hi|]. cbn [first_fitting] in H.
  destruct (x + a <=? C) eqn:E; [lia|].
  destruct Hi as [Hi|Hi]; [subst i; lia|apply IH; assumption].
Qed.

Lemma bco_In_range_from j : forall n i, (i <= j < i + n)%nat -> In j (range_from i n).
Proof.
  induction n as [|n IH]; intros i H; [lia|]. cbn [range_from].
  destruct (Nat.eq_dec i j) as [E|E]; [left; exact E|right; apply IH; lia].
Qed.

(** the candidate list built by [find_bin_completions] before the dominance filter *)
Definition found_list (x y C : Z) (items : list Z) : list (list Z) :=
  [y] :: flat_map (fun i => flat_map (completions_for_fc x y C items)
                              (filter (fun s => x + zsum s <=? C) (combos i items)))
                  (range (S (length items))).

Lemma found_list_sound x C items c : first_fitting x C items <> 0 ->
  In c (found_list x (first_fitting x C items) C items) ->
  sub_multiset c items = true /\ x + zsum c <= C.
Proof.
  intros Hy [H|H].
  - subst c. destruct (first_fitting_spec x C items Hy) as [H1 H2]. split.
    + cbn [sub_multiset]. apply bc_existsb_eqb_In in H1. rewrite H1. reflexivity.
    + rewrite zsum_cons. cbn. lia.
  - apply in_flat_map in H. destruct H as (i & _ & H).
    apply in_flat_map in H. destruct H as (fc & Hfc & H).
    apply filter_In in Hfc. destruct Hfc as [Hfc Hfit].
    apply (completions_for_fc_sound x (first_fitting x C items) C items fc c); [|lia|exact H].
    apply (combos_sub items i). exact Hfc.
Qed.

Lemma perm_sub_multiset B A : Permutation A B -> sub_multiset B A = true.
Proof.
  intros H. apply (sub_multiset_of_perm B []). rewrite app_nil_r. apply Permutation_sym. exact H.
Qed.

(** every feasible completion is contained in a candidate *)
Lemma found_list_cover x y C items B : In y items ->
  sub_multiset B items = true -> x + zsum B <= C ->
  exists A0, In A0 (found_list x y C items) /\ sub_multiset B A0 = true.
Proof.
  intros Hy HB Hfit. destruct B as [|b0 B0] eqn:EB.
  { exists [y]. split; [left; reflexivity|reflexivity]. }
  rewrite <- EB in *. assert (HBne : B <> []) by (subst B; discriminate).
  apply sub_multiset_spec in HB. destruct HB as (rest & Hrest).
  destruct (combos_complete items B rest Hrest) as (fc & Hfc & Hperm).
  assert (Hfcne : fc <> []).
  { intros E. subst fc. apply Permutation_nil in Hperm. contradiction. }
  assert (Hlen : (length B <= length items)%nat).
  { rewrite <- (Permutation_length Hrest), app_length. lia. }
  assert (Hcand : forall A0, In A0 (completions_for_fc x y C items fc) ->
                             In A0 (found_list x y C items)).
  { intros A0 HA0. right. apply in_flat_map. exists (length B). split.
    - apply bco_In_range_from. lia.
    - apply in_flat_map. exists fc. split; [|exact HA0]. apply filter_In. split; [exact Hfc|].
      rewrite (zsum_perm _ _ Hperm). lia. }
  unfold completions_for_fc in Hcand.
  destruct (undominated_pairs (length (list_without items fc)) (x + zsum fc) y C (list_without items fc))
    as [|p0 ps].
  - destruct fc as [|f0 ft]; [congruence|]. exists (f0 :: ft). split.
    + apply Hcand. left. reflexivity.
    + apply perm_sub_multiset. exact Hperm.
  - exists (sort_desc zid (p0 ++ fc)). split.
    + apply Hcand. apply in_or_app. left. left. reflexivity.
    + apply (sub_multiset_of_perm B p0).
      apply Permutation_trans with (p0 ++ fc); [|apply Permutation_sym, sort_desc_perm].
      apply Permutation_trans with (fc ++ p0); [|apply Permutation_app_comm].
      apply Permutation_app_tail. apply Permutation_sym. exact Hperm.
Qed.

Lemma find_bin_completions_unfold x items C : items <> [] -> first_fitting x C items <> 0 ->
  find_bin_completions x items C =
  check_for_dominance (unique_list (sort_desc zsum (found_list x (first_fitting x C items) C items))).
Proof.
  intros Hne Hy. unfold find_bin_completions, found_list. destruct items as [|i0 it]; [congruence|].
  destruct (first_fitting x C (i0 :: it) =? 0) eqn:E; [lia|reflexivity].
Qed.

(** (b) completeness of [find_bin_completions] up to dominance: every feasible completion B of
    the bin of x (any size) is matched or beaten by a returned completion *)
Theorem find_bin_completions_complete C x items B :
  Forall (fun v => 0 < v) items -> sub_multiset B items = true -> x + zsum B <= C ->
  (find_bin_completions x items C = [] /\ B = []) \/
  (exists A, In A (find_bin_completions x items C) /\ Better C items A B).
Proof.
  intros Hpos HB Hfit.
  destruct (Z.eq_dec (first_fitting x C items) 0) as [Hy0|Hy].
  - left. split.
    + unfold find_bin_completions. destruct items as [|i0 it]; [reflexivity|].
      rewrite Hy0. reflexivity.
    + destruct B as [|b0 B0]; [reflexivity|]. exfalso.
      pose proof (sub_multiset_pos _ _ Hpos HB) as HposB.
      apply list_without_perm in HB.
      assert (Hb : In b0 items) by (eapply Permutation_in; [exact HB|left; reflexivity]).
      pose proof (first_fitting_zero x C items Hpos Hy0 b0 Hb) as Hbig.
      inversion HposB as [|b l Hb0 HB0]; subst b l.
      apply pos_nonneg, zsum_nonneg in HB0. rewrite zsum_cons in Hfit. lia.
  - right. destruct (first_fitting_spec x C items Hy) as [HyIn _].
    assert (Hne : items <> []) by (intros E; subst items; destruct HyIn).
    rewrite (find_bin_completions_unfold x items C Hne Hy).
    set (F := found_list x (first_fitting x C items) C items).
    assert (HF : forall c, In c F -> sub_multiset c items = true).
    { intros c Hc. apply (found_list_sound x C items c Hy Hc). }
    destruct (found_list_cover x _ C items B HyIn HB Hfit) as (A0 & HA0 & Hsub). fold F in HA0.
    set (L := unique_list (sort_desc zsum F)).
    assert (HL : forall c, In c L -> sub_multiset c items = true).
    { intros c Hc. apply HF. apply unique_list_In in Hc.
      apply (Permutation_in _ (sort_desc_perm zsum F)). exact Hc. }
    assert (HA0L : In A0 L).
    { apply unique_list_complete. apply (Permutation_in _ (Permutation_sym (sort_desc_perm zsum F))).
      exact HA0. }
    destruct (check_for_dominance_complete (Better C items) L (better_refl C items)
                (better_trans C items)) with (c := A0) as (s & Hs & Hbetter).
    + intros a b Ha Hb Hd. apply is_dominant_sound; auto.
    + apply unique_list_NoDup.
    + exact HA0L.
    + exists s. split; [exact Hs|]. apply (better_trans C items s A0 B Hbetter).
      apply is_dominant_sound; auto. apply sub_is_dominant. exact Hsub.
Qed.

(** ---- 6. the branch-and-bound loops ---- *)

Lemma remove_first_incl x l : incl (remove_first x l) l.
Proof.
  induction l as [|y t IH]; intros v Hv; cbn [remove_first] in Hv; [exact Hv|].
  destruct (x =? y); [right; exact Hv|].
  destruct Hv as [Hv|Hv]; [left; exact Hv|right; apply IH; exact Hv].
Qed.

Lemma list_without_incl c : forall l, incl (list_without l c) l.
Proof.
  induction c as [|x t IH]; intros l v Hv; [exact Hv|]. rewrite list_without_cons in Hv.
  apply (remove_first_incl x l). apply IH. exact Hv.
Qed.

Lemma remove_first_length x l : (length (remove_first x l) <= length l)%nat.
Proof.
  induction l as [|y t IH]; cbn [remove_first length]; [lia|].
  destruct (x =? y); cbn [length]; lia.
Qed.

Lemma list_without_length c : forall l, (length (list_without l c) <= length l)%nat.
Proof.
  induction c as [|x t IH]; intros l; [cbn; lia|]. rewrite list_without_cons.
  pose proof (IH (remove_first x l)). pose proof (remove_first_length x l). lia.
Qed.

Lemma incl_pos (l l' : list Z) : incl l l' -> Forall (fun v => 0 < v) l' -> Forall (fun v => 0 < v) l.
Proof. intros Hi Hp. rewrite Forall_forall in *. intros v Hv. apply Hp, Hi, Hv. Qed.

Lemma gpack_total C vs n : GPack C vs n -> zsum vs <= Z.of_nat n * C.
Proof. intros H. apply packable_total. apply gpack_packable. exact H. Qed.

Section Search.
  Variable keep : bool.
  Variable C : Z.
  Variable T : nat.            (* number of bins of some packing of all the items *)
  Hypothesis HC : 0 < C.

  (** a branch from which a packing with at most T bins can still be completed *)
  Definition good (items : list Z) (b : zbins) : Prop :=
    exists m, (length b + m <= T)%nat /\ GPack C items m.
  Definition goodbr (br : branch) : Prop := good (br_items br) (br_bins br).

  (** a good branch is never cut by the partial lower bound while the incumbent is worse than T *)
  Lemma good_not_pruned items b bestn : (T < bestn)%nat -> good items b ->
    plb_ge C (length b) items bestn = false.
  Proof.
    intros HT (m & Hm & HK). apply gpack_total in HK. unfold plb_ge.
    destruct ((Z.of_nat bestn - Z.of_nat (length b)) * C <=? zsum items) eqn:E; [|reflexivity].
    exfalso. assert (H : Z.of_nat m + 1 <= Z.of_nat bestn - Z.of_nat (length b)) by lia. nia.
  Qed.

  Lemma bc_round_good bestn x updated b newbr cur' updated' newbr' :
    (T < bestn)%nat -> Forall (fun v => 0 < v) updated -> good (x :: updated) b ->
    bc_round keep C bestn x updated b newbr = (cur', updated', newbr') ->
    good updated' (b ++ [cur']) \/ Exists goodbr newbr'.
  Proof.
    intros HT Hpos (m & Hm & HK) H.
    destruct (gpack_head C x updated m HK) as (B & R' & m' & Em & HP & Hfit & HK').
    assert (HB : sub_multiset B updated = true).
    { apply (sub_multiset_of_perm B R'). apply Permutation_sym. exact HP. }
    assert (HKB : GPack C (list_without updated B) m').
    { apply (gpack_perm C R'); [|exact HK']. apply (Permutation_app_inv_l B).
      apply Permutation_trans with updated; [apply Permutation_sym; exact HP|].
      apply Permutation_sym. apply list_without_perm. exact HB. }
    assert (Hlen : forall c : bin Z, (length (b ++ [c]) + m' <= T)%nat).
    { intros c. rewrite app_length. cbn [length]. lia. }
    unfold bc_round in H.
    destruct (find_bin_completions_complete C x updated B Hpos HB Hfit) as [[E1 E2]|(A & HA & Hbet)].
    - rewrite E1 in H. injection H as Ec Eu En. subst cur' updated' newbr' B.
      left. exists m'. split; [apply Hlen|]. rewrite list_without_nil in HKB. exact HKB.
    - apply Hbet in HKB.
      destruct (find_bin_completions x updated C) as [|c0 others]; [destruct HA|].
      cbv beta iota zeta in H. injection H as Ec Eu En. subst cur' updated' newbr'.
      destruct HA as [HA|HA].
      + subst c0. left. exists m'. split; [apply Hlen|exact HKB].
      + right. apply Exists_app. right. apply Exists_exists.
        set (cur := add_to_bin zid keep x empty_bin).
        exists (mk_branch (list_without updated A) (b ++ [add_all keep cur A])). split.
        * apply in_flat_map. exists A. split; [exact HA|]. fold cur.
          rewrite (good_not_pruned (list_without updated A) (b ++ [add_all keep cur A]) bestn HT).
          { left. reflexivity. }
          exists m'. split; [apply Hlen|exact HKB].
        * exists m'. cbn [br_items br_bins]. split; [apply Hlen|exact HKB].
  Qed.

  Lemma bc_round_shape bestn x updated b newbr cur' updated' newbr' :
    bc_round keep C bestn x updated b newbr = (cur', updated', newbr') ->
    exists brs c, newbr' = newbr ++ brs /\ updated' = list_without updated c.
  Proof.
    intros H. unfold bc_round in H. destruct (find_bin_completions x updated C) as [|c0 others].
    - injection H as Ec Eu En. exists [], []. rewrite app_nil_r. split; [congruence|].
      rewrite list_without_nil. congruence.
    - cbv beta iota zeta in H. injection H as Ec Eu En. subst updated' newbr'.
      eexists. exists c0. split; reflexivity.
  Qed.

  Lemma bc_inner_good bestn : (T < bestn)%nat ->
    forall fuel items b newbr items' b' newbr',
    (length items <= fuel)%nat -> Forall (fun v => 0 < v) items ->
    good items b \/ Exists goodbr newbr ->
    bc_inner keep C fuel bestn items b newbr = (items', b', newbr') ->
    (items' = [] /\ (length b' <= T)%nat) \/ Exists goodbr newbr'.
  Proof.
    intros HT. induction fuel as [|f IH]; intros items b newbr items' b' newbr' Hfuel Hpos Hgood H.
    - destruct items as [|x t]; [|cbn [length] in Hfuel; lia].
      cbn [bc_inner] in H. injection H as E1 E2 E3. subst.
      destruct Hgood as [(m & Hm & _)|Hg]; [left; split; [reflexivity|lia]|right; exact Hg].
    - destruct items as [|x updated].
      + rewrite bc_inner_nil in H. injection H as E1 E2 E3. subst.
        destruct Hgood as [(m & Hm & _)|Hg]; [left; split; [reflexivity|lia]|right; exact Hg].
      + rewrite bc_inner_S in H.
        destruct (bc_round keep C bestn x updated b newbr) as [[cur1 upd1] nb1] eqn:ER.
        inversion Hpos as [|x0 l0 Hx Hpu]; subst x0 l0.
        destruct (bc_round_shape bestn x updated b newbr cur1 upd1 nb1 ER) as (brs & c & Enb & Eupd).
        assert (Hgood1 : good upd1 (b ++ [cur1]) \/ Exists goodbr nb1).
        { destruct Hgood as [Hg|Hg].
          - apply (bc_round_good bestn x updated b newbr cur1 upd1 nb1 HT Hpu Hg ER).
          - right. rewrite Enb. apply Exists_app. left. exact Hg. }
        destruct (plb_ge C (length (b ++ [cur1])) upd1 bestn) eqn:Eplb.
        * injection H as E1 E2 E3. subst items' b' newbr'.
          destruct Hgood1 as [Hg|Hg]; [|right; exact Hg].
          rewrite (good_not_pruned upd1 (b ++ [cur1]) bestn HT Hg) in Eplb. discriminate Eplb.
        * apply (IH upd1 (b ++ [cur1]) nb1 items' b' newbr'); [| |exact Hgood1|exact H].
          -- rewrite Eupd. pose proof (list_without_length c updated). cbn [length] in Hfuel. lia.
          -- rewrite Eupd. apply (incl_pos _ updated); [apply list_without_incl|exact Hpu].
  Qed.
End Search.

Lemma bc_outer_le keep C lb : forall fuel queue best r,
  bc_outer keep C fuel lb queue best = Ok r -> (length r <= length best)%nat.
Proof.
  induction fuel as [|f IH]; intros queue best r H; [discriminate H|].
  destruct queue as [|cb q]; [cbn [bc_outer] in H; injection H as E; subst r; lia|].
  rewrite bc_outer_S in H.
  destruct (bc_inner keep C (length (br_items cb)) (length best) (br_items cb) (br_bins cb) [])
    as [[items1 b1] newbr].
  cbv zeta in H.
  set (best1 := match items1 with
                | [] => if Nat.ltb (length b1) (length best) then b1 else best
                | _ :: _ => best
                end) in H.
  assert (Hb1 : (length best1 <= length best)%nat).
  { subst best1. destruct items1 as [|i1 it1]; [|lia].
    destruct (Nat.ltb (length b1) (length best)) eqn:E; [apply Nat.ltb_lt in E; lia|lia]. }
  destruct (Z.of_nat (length best1) =? lb).
  - injection H as E. subst r. exact Hb1.
  - apply IH in H. lia.
Qed.

Lemma br_ok_pos C vs items b : Forall (fun v => 0 < v) vs -> br_ok C vs items b ->
  Forall (fun v => 0 < v) items.
Proof.
  intros Hpos (_ & _ & _ & HP). apply (Permutation_Forall (Permutation_sym HP)) in Hpos.
  apply Forall_app in Hpos. destruct Hpos as [_ H]. exact H.
Qed.

(** (c) the outer loop: as long as the incumbent has more than T bins, some queued branch can
    still be completed to T bins; hence the answer has at most T bins *)
Lemma bc_outer_good C T vs lb :
  0 < C -> Forall (fun v => 0 < v) vs -> Forall (fun v => v <= C) vs -> lb <= Z.of_nat T ->
  forall fuel queue best r, brs_ok C vs queue ->
  (length best <= T)%nat \/ Exists (goodbr C T) queue ->
  bc_outer true C fuel lb queue best = Ok r -> (length r <= T)%nat.
Proof.
  intros HC Hpos Hle Hlb. induction fuel as [|f IH]; intros queue best r Hq Hinv H; [discriminate H|].
  destruct (le_lt_dec (length best) T) as [Hbest|Hbest].
  { apply bc_outer_le in H. lia. }
  destruct Hinv as [Hinv|Hinv]; [lia|].
  destruct queue as [|cb q]; [inversion Hinv|].
  rewrite bc_outer_S in H.
  destruct (bc_inner true C (length (br_items cb)) (length best) (br_items cb) (br_bins cb) [])
    as [[items1 b1] newbr] eqn:EI.
  inversion Hq as [|cb' q' Hcb Hq']; subst cb' q'.
  destruct (bc_inner_ok C vs (length best) Hle _ _ _ _ _ _ _ EI Hcb (Forall_nil _)) as [Hok1 Hbrs1].
  cbv zeta in H.
  set (best1 := match items1 with
                | [] => if Nat.ltb (length b1) (length best) then b1 else best
                | _ :: _ => best
                end) in H.
  assert (Hnext : (length best1 <= T)%nat \/ Exists (goodbr C T) (q ++ newbr)).
  { inversion Hinv as [cb' q' Hg|cb' q' Hg]; subst cb' q'.
    - destruct (bc_inner_good true C T HC (length best) Hbest _ _ _ _ _ _ _ (Nat.le_refl _)
                  (br_ok_pos C vs _ _ Hpos Hcb) (or_introl Hg) EI) as [[E Hb1]|Hg1].
      + left. subst best1 items1.
        assert (E : Nat.ltb (length b1) (length best) = true) by (apply Nat.ltb_lt; lia).
        rewrite E. exact Hb1.
      + right. apply Exists_app. right. exact Hg1.
    - right. apply Exists_app. left. exact Hg. }
  destruct (Z.of_nat (length best1) =? lb) eqn:Elb.
  - injection H as E. subst r. lia.
  - apply (IH (q ++ newbr) best1 r); [|exact Hnext|exact H].
    apply Forall_app. split; assumption.
Qed.

(** ---- 7. optimality ---- *)

Lemma filter_nonzero_pos items : Forall (fun v => 0 <= v) items ->
  Forall (fun v => 0 < v) (filter nonzero items).
Proof.
  intros H. apply Forall_forall. intros v Hv. apply filter_In in Hv. destruct Hv as [Hv Hnz].
  rewrite Forall_forall in H. specialize (H v Hv). cbv beta in Hnz. lia.
Qed.

Theorem bc_le_any_packing : forall C fuel items b m,
  0 < C -> Forall (fun v => 0 <= v) items ->
  bin_completion true C fuel items = Ok b ->
  Packable C (filter nonzero items) m -> (length b <= m)%nat.
Proof.
  intros C fuel items b m HC Hnn H Hm.
  pose proof (bc_lb_sound C _ m HC Hm) as Hlb.
  unfold bin_completion in H.
  destruct (existsb (fun v => C <? v) items) eqn:Eo; [discriminate H|].
  pose proof (no_oversize_Forall C items Eo) as Hle.
  set (vs := filter nonzero items) in *.
  assert (Hlev : Forall (fun v => v <= C) vs).
  { apply Forall_forall. intros v Hv. apply filter_In in Hv. destruct Hv as [Hv _].
    rewrite Forall_forall in Hle. apply Hle. exact Hv. }
  destruct (best_fit_decreasing zid true C vs) as [bfd|e]; [|discriminate H].
  destruct (C =? 0) eqn:E0; [lia|].
  destruct (Z.of_nat (length bfd) =? cdiv (zsum vs) C) eqn:Elb.
  - injection H as E. subst b. lia.
  - apply (bc_outer_good C m vs (cdiv (zsum vs) C) HC (filter_nonzero_pos items Hnn) Hlev Hlb
             fuel [mk_branch (sort_desc zid vs) []] bfd b); [| |exact H].
    + constructor; [|constructor]. cbn [br_items br_bins].
      unfold br_ok, wf, feasible, all_nonempty. repeat split; try constructor.
      change (contents (@nil (bin Z))) with (@nil Z). cbn [app]. apply sort_desc_perm.
    + right. constructor. exists m. cbn [br_items br_bins length]. split; [lia|].
      apply (gpack_perm C vs); [apply Permutation_sym, sort_desc_perm|].
      apply packable_gpack. exact Hm.
Qed.

(** the open statement of BCProofs is a theorem *)
Theorem bc_optimal : bc_optimal_statement.
Proof.
  intros C fuel items b HC Hnn H. split.
  - apply (bc_packable C fuel); assumption.
  - intros m Hm. apply (bc_le_any_packing C fuel items b m); assumption.
Qed.

(** the same statement as it is written in BCProofs, and with the hypothesis 0 <= v <= C *)
Corollary bc_optimal_BCProofs : Prtpy.Proofs.BCProofs.bc_optimal_statement.
Proof. exact bc_optimal. Qed.

Corollary bc_optimal_bounded : forall C fuel items b,
  0 < C -> Forall (fun v => 0 <= v <= C) items ->
  bin_completion true C fuel items = Ok b ->
  MinBins C (filter nonzero items) (length b).
Proof.
  intros C fuel items b HC Hb H. apply (bc_optimal C fuel items b HC); [|exact H].
  eapply Forall_impl; [|exact Hb]. intros v Hv. cbv beta in Hv. lia.
Qed.

(** not vacuous: a run where best-fit-decreasing needs 3 bins and the search finds 2 *)
Example bc_optimal_nonvacuous :
  (match best_fit_decreasing zid true 20 [11;7;7;6;5;4] with Ok b => length b | Err _ => O end) = 3%nat /\
  (match bin_completion true 20 20 [11;7;7;6;5;4] with Ok b => length b | Err _ => O end) = 2%nat.
Proof. vm_compute. split; reflexivity. Qed.

(** Refutation attempts made before the proof (all negative): the Python implementation in /repo was
    compared with an exact subset-DP optimum on EVERY multiset of n items with values in [lo, C] for
    (C, n, lo) = (10,6,1) (12,8,2) (13,9,2) (15,8,3) (10,10,2) (17,9,4) (20,8,5) (9,11,2):
    about 1.4 million instances, no disagreement.  Why the suspected holes are not holes:
    every feasible sub-multiset fc of the remaining items is itself enumerated (all sizes), and
    either fc or a superset fc + pair is recorded, so skipping pairs with sum <= y loses nothing;
    [check_for_dominance] never drops a candidate without keeping a dominator ([cfd_inv]);
    [plb_ge] with >= cuts a branch only if it cannot beat the incumbent ([good_not_pruned]). *)

Print Assumptions is_dominant_sound.
Print Assumptions check_for_dominance_complete.
Print Assumptions find_bin_completions_complete.
Print Assumptions bc_outer_good.
Print Assumptions bc_le_any_packing.
Print Assumptions bc_optimal.
Print Assumptions bc_optimal_BCProofs.
Print Assumptions bc_optimal_bounded.
