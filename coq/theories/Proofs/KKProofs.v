(** Proofs about Model/KK.v: Karmarkar-Karp (kk) and complete Karmarkar-Karp (ckk, generator). *)
From Prtpy Require Import Base.Prelude Base.Perms Model.Binner Model.KK Spec.Partition
  Proofs.BaseLemmas Proofs.BinnerLemmas Proofs.EnumProofs.
From Coq Require Import Sorting.Sorted ZifyBool.

Section KKProofs.
  Context {A : Type} (valueof nameof : A -> Z).

  (** ---- the heap invariant ---- *)
  Definition heap_contents (h : @heap A) : list A := concat (map (fun e => contents (snd e)) h).

  Definition entry_ok (k : nat) (e : @hentry A) : Prop :=
    length (snd e) = k /\ wf valueof (snd e).

  Definition heap_inv (k : nat) (its : list A) (h : @heap A) : Prop :=
    Forall (entry_ok k) h /\ Permutation (heap_contents h) its.

  Lemma heap_contents_cons (e : @hentry A) h :
    heap_contents (e :: h) = contents (snd e) ++ heap_contents h.
  Proof. reflexivity. Qed.

  Lemma heap_contents_perm (h1 h2 : @heap A) :
    Permutation h1 h2 -> Permutation (heap_contents h1) (heap_contents h2).
  Proof.
    induction 1 as [|x l l' P IH|x y l|l l' l'' P1 IH1 P2 IH2].
    - apply Permutation_refl.
    - rewrite !heap_contents_cons. apply Permutation_app_head. exact IH.
    - rewrite !heap_contents_cons. rewrite !app_assoc.
      apply Permutation_app_tail, Permutation_app_comm.
    - etransitivity; eauto.
  Qed.

  Lemma heap_inv_perm k its its' (h : @heap A) :
    Permutation its its' -> heap_inv k its h -> heap_inv k its' h.
  Proof. intros P [HF HP]. split; [exact HF|]. etransitivity; eauto. Qed.

  Lemma heap_inv_nil k : heap_inv k [] [].
  Proof. split; [constructor|apply Permutation_refl]. Qed.

  (** ---- heap_insert / heap_push ---- *)
  Lemma heap_insert_perm (e : @hentry A) h : Permutation (heap_insert e h) (e :: h).
  Proof.
    induction h as [|y t IH]; cbn [heap_insert]; auto.
    destruct (fst e <? fst y); auto.
    rewrite IH. apply perm_swap.
  Qed.

  Lemma heap_insert_length (e : @hentry A) h : length (heap_insert e h) = S (length h).
  Proof. apply (Permutation_length (heap_insert_perm e h)). Qed.

  Lemma heap_push_length (h : @heap A) b : length (heap_push h b) = S (length h).
  Proof. unfold heap_push. apply heap_insert_length. Qed.

  Lemma heap_insert_Forall (P : @hentry A -> Prop) e h :
    Forall P h -> P e -> Forall P (heap_insert e h).
  Proof.
    intros HF He. eapply Permutation_Forall; [symmetry; apply heap_insert_perm|].
    constructor; assumption.
  Qed.

  Lemma heap_push_Forall (P : @hentry A -> Prop) h b :
    Forall P h -> P (- bins_diff (sort_bins b), sort_bins b) -> Forall P (heap_push h b).
  Proof. intros HF He. unfold heap_push. apply heap_insert_Forall; assumption. Qed.

  Lemma heap_insert_inv k its its' e h :
    heap_inv k its h -> entry_ok k e -> Permutation (contents (snd e) ++ its) its' ->
    heap_inv k its' (heap_insert e h).
  Proof.
    intros [HF HP] He HP'. split.
    - apply heap_insert_Forall; assumption.
    - rewrite (heap_contents_perm _ _ (heap_insert_perm e h)). rewrite heap_contents_cons.
      rewrite HP. exact HP'.
  Qed.

  Lemma heap_push_inv k its its' h b :
    heap_inv k its h -> length b = k -> wf valueof b -> Permutation (contents b ++ its) its' ->
    heap_inv k its' (heap_push h b).
  Proof.
    intros Hh Hl Hw HP. unfold heap_push. eapply heap_insert_inv; [exact Hh| |].
    - split; cbn [snd].
      + rewrite sort_bins_length. exact Hl.
      + apply sort_bins_wf. exact Hw.
    - cbn [snd]. rewrite sort_bins_contents. exact HP.
  Qed.

  (** ---- 1. the initial heap ---- *)
  Lemma singleton_bins_length keep k x : length (singleton_bins valueof keep k x) = k.
  Proof. unfold singleton_bins. rewrite add_item_length. apply new_bins_length. Qed.

  Lemma singleton_bins_wf k x : wf valueof (singleton_bins valueof true k x).
  Proof. unfold singleton_bins. apply add_item_wf, new_bins_wf. Qed.

  Lemma singleton_bins_contents k x : (1 <= k)%nat ->
    Permutation (contents (singleton_bins valueof true k x)) [x].
  Proof.
    intros Hk. unfold singleton_bins. rewrite add_item_contents.
    - rewrite new_bins_contents. apply Permutation_refl.
    - rewrite new_bins_length. lia.
  Qed.

  Lemma initial_fold_inv k : (1 <= k)%nat -> forall l h its, heap_inv k its h ->
    heap_inv k (l ++ its)
      (fold_left (fun h x => heap_push h (singleton_bins valueof true k x)) l h).
  Proof.
    intros Hk. induction l as [|x t IH]; intros h its Hh; cbn [fold_left app]; [exact Hh|].
    apply (heap_inv_perm k (t ++ x :: its)).
    - symmetry. apply Permutation_middle.
    - apply IH. eapply heap_push_inv; [exact Hh|apply singleton_bins_length|apply singleton_bins_wf|].
      rewrite singleton_bins_contents by exact Hk. apply Permutation_refl.
  Qed.

  Lemma initial_fold_length keep k : forall l (h : @heap A),
    length (fold_left (fun h x => heap_push h (singleton_bins valueof keep k x)) l h)
    = (length l + length h)%nat.
  Proof.
    induction l as [|x t IH]; intros h; cbn [fold_left length]; [reflexivity|].
    rewrite IH, heap_push_length. lia.
  Qed.

  Lemma initial_heap_length keep k items :
    length (initial_heap valueof keep k items) = length items.
  Proof.
    unfold initial_heap. rewrite initial_fold_length, sort_desc_length. cbn [length]. lia.
  Qed.

  Theorem initial_heap_inv k items : (1 <= k)%nat ->
    heap_inv k items (initial_heap valueof true k items) /\
    length (initial_heap valueof true k items) = length items.
  Proof.
    intros Hk. split; [|apply initial_heap_length].
    unfold initial_heap. apply (heap_inv_perm k (sort_desc valueof items ++ [])).
    - rewrite app_nil_r. apply sort_desc_perm.
    - apply initial_fold_inv; [exact Hk|apply heap_inv_nil].
  Qed.

  (** ---- 2. kk returns a partition ---- *)
  Lemma zip_combine_length (b1 b2 : bins A) : length (zip_combine b1 b2) = length b1.
  Proof.
    revert b2; induction b1 as [|x t IH]; intros [|y t2]; cbn [zip_combine length]; auto.
  Qed.

  Lemma zip_combine_wf (b1 b2 : bins A) :
    wf valueof b1 -> wf valueof b2 -> wf valueof (zip_combine b1 b2).
  Proof.
    unfold wf. revert b2; induction b1 as [|x t IH]; intros [|y t2] H1 H2; cbn [zip_combine]; auto.
    inversion H1 as [|x' t' Hx Ht]; subst. inversion H2 as [|y' t2' Hy Ht2]; subst.
    constructor; [apply combine_bin_wf; assumption|apply IH; assumption].
  Qed.

  Lemma zip_combine_contents (b1 b2 : bins A) : length b1 = length b2 ->
    Permutation (contents (zip_combine b1 b2)) (contents b1 ++ contents b2).
  Proof.
    revert b2; induction b1 as [|x t IH]; intros [|y t2] H; cbn [length] in H;
      try discriminate; cbn [zip_combine].
    - apply Permutation_refl.
    - rewrite !contents_cons. cbn [combine_bin snd]. rewrite IH by lia.
      rewrite <- !app_assoc. apply Permutation_app_head.
      rewrite !app_assoc. apply Permutation_app_tail, Permutation_app_comm.
  Qed.

  Lemma rev_wf (b : bins A) : wf valueof b -> wf valueof (rev b).
  Proof. apply Forall_rev. Qed.

  Lemma rev_contents (b : bins A) : Permutation (contents (rev b)) (contents b).
  Proof. apply contents_perm. symmetry. apply Permutation_rev. Qed.

  Lemma kk_combine_length (b1 b2 : bins A) : length (kk_combine b1 b2) = length b1.
  Proof. apply zip_combine_length. Qed.

  Lemma kk_combine_wf (b1 b2 : bins A) :
    wf valueof b1 -> wf valueof b2 -> wf valueof (kk_combine b1 b2).
  Proof. intros H1 H2. apply zip_combine_wf; [exact H1|apply rev_wf; exact H2]. Qed.

  Lemma kk_combine_contents (b1 b2 : bins A) : length b1 = length b2 ->
    Permutation (contents (kk_combine b1 b2)) (contents b1 ++ contents b2).
  Proof.
    intros H. unfold kk_combine. rewrite zip_combine_contents by (rewrite rev_length; exact H).
    apply Permutation_app_head, rev_contents.
  Qed.

  (** replacing the two top entries by a combination of them keeps the invariant *)
  Lemma replace_top_inv k its e1 e2 rest c :
    heap_inv k its (e1 :: e2 :: rest) ->
    length c = k -> wf valueof c ->
    Permutation (contents c) (contents (snd e1) ++ contents (snd e2)) ->
    heap_inv k its (heap_push rest c).
  Proof.
    intros [HF HP] Hl Hw Hc.
    pose proof (Forall_inv_tail (Forall_inv_tail HF)) as HF2.
    apply (heap_push_inv k (heap_contents rest)); [split; [exact HF2|apply Permutation_refl]|exact Hl|exact Hw|].
    rewrite Hc. rewrite <- app_assoc. rewrite !heap_contents_cons in HP. exact HP.
  Qed.

  Lemma kk_step_inv k its e1 e2 rest :
    heap_inv k its (e1 :: e2 :: rest) ->
    heap_inv k its (heap_push rest (kk_combine (snd e1) (snd e2))).
  Proof.
    intros Hh. pose proof Hh as [HF _].
    destruct (Forall_inv HF) as [L1 W1]. destruct (Forall_inv (Forall_inv_tail HF)) as [L2 W2].
    eapply replace_top_inv; [exact Hh| | |].
    - rewrite kk_combine_length. exact L1.
    - apply kk_combine_wf; assumption.
    - apply kk_combine_contents. congruence.
  Qed.

  Lemma kk_loop_inv k its fuel : forall h, heap_inv k its h -> heap_inv k its (kk_loop fuel h).
  Proof.
    induction fuel as [|f IH]; intros h Hh; cbn [kk_loop]; [exact Hh|].
    destruct h as [|e1 [|e2 rest]]; try exact Hh.
    apply IH, kk_step_inv, Hh.
  Qed.

  Lemma kk_loop_length fuel : forall h : @heap A,
    (1 <= length h)%nat -> (length h <= S fuel)%nat -> length (kk_loop fuel h) = 1%nat.
  Proof.
    induction fuel as [|f IH]; intros h H1 H2; cbn [kk_loop]; [lia|].
    destruct h as [|e1 [|e2 rest]]; cbn [length] in *; try lia.
    apply IH; rewrite heap_push_length; lia.
  Qed.

  Lemma single_heap_partition k its (e : @hentry A) :
    heap_inv k its [e] -> is_partition valueof k its (snd e).
  Proof.
    intros [HF HP]. destruct (Forall_inv HF) as [L W].
    rewrite heap_contents_cons in HP. cbn in HP. rewrite app_nil_r in HP.
    split; [exact HP|split; assumption].
  Qed.

  Theorem kk_partition : forall k items, (1 <= k)%nat -> items <> [] ->
    exists b, kk valueof true k items = Ok b /\ is_partition valueof k items b.
  Proof.
    intros k items Hk Hne. destruct (initial_heap_inv k items Hk) as [Hinv Hlen].
    assert (Hpos : (1 <= length items)%nat) by (destruct items; [congruence|cbn [length]; lia]).
    pose proof (kk_loop_inv k items (length items - 1) _ Hinv) as HL.
    pose proof (kk_loop_length (length items - 1) (initial_heap valueof true k items)) as HN.
    unfold kk.
    destruct (kk_loop (length items - 1) (initial_heap valueof true k items)) as [|e [|e' r]];
      cbn [length] in HN; try lia.
    exists (snd e). split; [reflexivity|]. apply single_heap_partition. exact HL.
  Qed.

  (** ---- 3. the sums-only run makes the same decisions ---- *)
  Definition erase_entry (e : @hentry A) : @hentry A := (fst e, erase (snd e)).
  Definition erase_heap (h : @heap A) : @heap A := map erase_entry h.

  Lemma heap_insert_erase e h :
    heap_insert (erase_entry e) (erase_heap h) = erase_heap (heap_insert e h).
  Proof.
    induction h as [|y t IH]; cbn [heap_insert erase_heap map]; [reflexivity|].
    cbn [erase_entry fst]. destruct (fst e <? fst y); cbn [map]; [reflexivity|].
    f_equal. exact IH.
  Qed.

  Lemma sort_bins_erase (b : bins A) : sort_bins (erase b) = erase (sort_bins b).
  Proof.
    unfold sort_bins, erase. symmetry. apply sort_asc_map. intros y. reflexivity.
  Qed.

  Lemma bins_diff_erase (b : bins A) : bins_diff (erase b) = bins_diff b.
  Proof. unfold bins_diff. rewrite erase_sums. reflexivity. Qed.

  Lemma heap_push_erase h (b : bins A) :
    heap_push (erase_heap h) (erase b) = erase_heap (heap_push h b).
  Proof.
    unfold heap_push. cbv zeta. rewrite sort_bins_erase, bins_diff_erase.
    exact (heap_insert_erase (- bins_diff (sort_bins b), sort_bins b) h).
  Qed.

  Lemma erase_new_bins k : erase (@new_bins A k) = new_bins k.
  Proof. unfold erase, new_bins. induction k as [|n IH]; cbn [repeat map]; [reflexivity|]. rewrite IH. reflexivity. Qed.

  Lemma singleton_bins_erase k x :
    singleton_bins valueof false k x = erase (singleton_bins valueof true k x).
  Proof.
    unfold singleton_bins, add_item. unfold erase at 1.
    rewrite (map_update (fun y : bin A => (fst y, @nil A)) (add_to_bin valueof true x)
               (add_to_bin valueof false x)) by (intros y; reflexivity).
    f_equal. symmetry. exact (erase_new_bins k).
  Qed.

  Lemma initial_fold_erase k : forall l h,
    fold_left (fun h x => heap_push h (singleton_bins valueof false k x)) l (erase_heap h)
    = erase_heap (fold_left (fun h x => heap_push h (singleton_bins valueof true k x)) l h).
  Proof.
    induction l as [|x t IH]; intros h; cbn [fold_left]; [reflexivity|].
    rewrite singleton_bins_erase, heap_push_erase. apply IH.
  Qed.

  Lemma initial_heap_erase k items :
    initial_heap valueof false k items = erase_heap (initial_heap valueof true k items).
  Proof. unfold initial_heap. rewrite <- initial_fold_erase. reflexivity. Qed.

  Lemma zip_combine_erase (b1 b2 : bins A) :
    zip_combine (erase b1) (erase b2) = erase (zip_combine b1 b2).
  Proof.
    revert b2; induction b1 as [|x t IH]; intros [|y t2]; try reflexivity.
    cbn [erase map zip_combine]. f_equal. apply IH.
  Qed.

  Lemma erase_rev (b : bins A) : erase (rev b) = rev (erase b).
  Proof. unfold erase. apply map_rev. Qed.

  Lemma kk_combine_erase (b1 b2 : bins A) :
    kk_combine (erase b1) (erase b2) = erase (kk_combine b1 b2).
  Proof. unfold kk_combine. rewrite <- erase_rev. apply zip_combine_erase. Qed.

  Lemma kk_loop_erase fuel : forall h, kk_loop fuel (erase_heap h) = erase_heap (kk_loop fuel h).
  Proof.
    induction fuel as [|f IH]; intros h; cbn [kk_loop]; [reflexivity|].
    destruct h as [|e1 [|e2 rest]]; try reflexivity.
    cbn [erase_heap map erase_entry snd]. rewrite kk_combine_erase.
    change (map erase_entry rest) with (erase_heap rest).
    rewrite heap_push_erase. apply IH.
  Qed.

  Theorem kk_erase : forall k items,
    rmap erase (kk valueof true k items) = kk valueof false k items.
  Proof.
    intros k items. unfold kk. rewrite initial_heap_erase, kk_loop_erase.
    destruct (kk_loop (length items - 1) (initial_heap valueof true k items)) as [|e r];
      reflexivity.
  Qed.

  (** ---- 4. the gap of the KK partition is at most the largest item (C08) ---- *)
  Lemma SSorted_snoc {T} (R : T -> T -> Prop) l x :
    StronglySorted R l -> Forall (fun y => R y x) l -> StronglySorted R (l ++ [x]).
  Proof.
    induction 1 as [|y t Ht IH Hy]; intros HF; cbn [app].
    - repeat constructor.
    - constructor.
      + apply IH. exact (Forall_inv_tail HF).
      + apply Forall_app. split; [exact Hy|]. constructor; [exact (Forall_inv HF)|constructor].
  Qed.

  Lemma SSorted_rev {T} (R : T -> T -> Prop) l :
    StronglySorted R l -> StronglySorted (fun x y => R y x) (rev l).
  Proof.
    induction 1 as [|y t Ht IH Hy]; cbn [rev]; [constructor|].
    apply SSorted_snoc; [exact IH|]. apply Forall_rev. exact Hy.
  Qed.

  Definition spread_le (M : Z) (l : list Z) : Prop :=
    forall x y, In x l -> In y l -> x - y <= M.

  Lemma spread_le_perm M l1 l2 : Permutation l1 l2 -> spread_le M l1 -> spread_le M l2.
  Proof.
    intros P H x y Hx Hy. apply H; eapply Permutation_in; try eassumption; symmetry; exact P.
  Qed.

  Lemma spread_le_tail M x l : spread_le M (x :: l) -> spread_le M l.
  Proof. intros H a b Ha Hb. apply H; right; assumption. Qed.

  Fixpoint zipsum (a c : list Z) : list Z :=
    match a, c with
    | x :: t, y :: t' => (x + y) :: zipsum t t'
    | _, _ => a
    end.

  Lemma zip_combine_sums (b1 b2 : bins A) :
    sums (zip_combine b1 b2) = zipsum (sums b1) (sums b2).
  Proof.
    revert b2; induction b1 as [|x t IH]; intros [|y t2]; try reflexivity.
    cbn [zip_combine sums map zipsum combine_bin fst]. f_equal. apply IH.
  Qed.

  Lemma zipsum_in a : forall c z, length a = length c -> In z (zipsum a c) ->
    exists p q, In p a /\ In q c /\ z = p + q.
  Proof.
    induction a as [|a0 a' IH]; intros [|c0 c'] z HL Hz; cbn [length] in HL; try discriminate.
    - destruct Hz.
    - cbn [zipsum] in Hz. destruct Hz as [Hz|Hz].
      + exists a0, c0. repeat split; [left; reflexivity|left; reflexivity|lia].
      + destruct (IH c' z) as (p & q & Hp & Hq & E); [lia|exact Hz|].
        exists p, q. repeat split; [right; exact Hp|right; exact Hq|exact E].
  Qed.

  (** a ascending, c descending, both of spread <= M: so is the pointwise sum *)
  Lemma zipsum_spread M a : forall c, length a = length c ->
    StronglySorted Z.le a -> StronglySorted (fun x y => y <= x) c ->
    spread_le M a -> spread_le M c -> 0 <= M -> spread_le M (zipsum a c).
  Proof.
    induction a as [|a0 a' IH]; intros [|c0 c'] HL Sa Sc Ha Hc HM; cbn [length] in HL; try discriminate.
    - intros x y Hx. destruct Hx.
    - cbn [zipsum]. inversion Sa as [|a0' a'' Sa' Fa]; subst a0' a''.
      inversion Sc as [|c0' c'' Sc' Fc]; subst c0' c''.
      rewrite Forall_forall in Fa, Fc.
      assert (HT : spread_le M (zipsum a' c')).
      { apply IH; try assumption; [lia|eapply spread_le_tail; exact Ha|eapply spread_le_tail; exact Hc]. }
      intros x y [Hx|Hx] [Hy|Hy].
      + lia.
      + destruct (zipsum_in a' c' y) as (p & q & Hp & Hq & E); [lia|exact Hy|].
        pose proof (Fa p Hp) as F1. pose proof (Fc q Hq) as F2.
        pose proof (Hc c0 q (or_introl eq_refl) (or_intror Hq)) as F3. lia.
      + destruct (zipsum_in a' c' x) as (p & q & Hp & Hq & E); [lia|exact Hx|].
        pose proof (Fa p Hp) as F1. pose proof (Fc q Hq) as F2.
        pose proof (Ha p a0 (or_intror Hp) (or_introl eq_refl)) as F3. lia.
      + apply HT; assumption.
  Qed.

  Definition gap_ok (M : Z) (e : @hentry A) : Prop :=
    StronglySorted Z.le (sums (snd e)) /\ spread_le M (sums (snd e)).

  Lemma kk_combine_spread M (b1 b2 : bins A) : length b1 = length b2 -> 0 <= M ->
    StronglySorted Z.le (sums b1) -> StronglySorted Z.le (sums b2) ->
    spread_le M (sums b1) -> spread_le M (sums b2) ->
    spread_le M (sums (kk_combine b1 b2)).
  Proof.
    intros HL HM S1 S2 H1 H2. unfold kk_combine. rewrite zip_combine_sums.
    unfold sums at 2. rewrite map_rev. fold (sums b2).
    apply zipsum_spread; try assumption.
    - unfold sums. rewrite rev_length, !map_length. exact HL.
    - apply (SSorted_rev Z.le). exact S2.
    - eapply spread_le_perm; [apply Permutation_rev|exact H2].
  Qed.

  Lemma pushed_gap_ok M (b : bins A) :
    spread_le M (sums b) -> gap_ok M (- bins_diff (sort_bins b), sort_bins b).
  Proof.
    intros H. split; cbn [snd].
    - apply sort_bins_sorted.
    - eapply spread_le_perm; [symmetry; apply sort_bins_sums_perm|exact H].
  Qed.

  Lemma update_in {T} (f : T -> T) : forall i l y, In y (update i f l) ->
    In y l \/ exists z, In z l /\ y = f z.
  Proof.
    intros i l; revert i; induction l as [|x t IH]; intros [|j] y Hy; cbn [update] in Hy.
    - destruct Hy.
    - destruct Hy.
    - destruct Hy as [Hy|Hy]; [right; exists x; split; [left; reflexivity|symmetry; exact Hy]|left; right; exact Hy].
    - destruct Hy as [Hy|Hy]; [left; left; exact Hy|].
      destruct (IH j y Hy) as [H|(z & Hz & E)]; [left; right; exact H|].
      right; exists z; split; [right; exact Hz|exact E].
  Qed.

  Lemma singleton_bins_spread keep M k x : 0 <= valueof x <= M ->
    spread_le M (sums (singleton_bins valueof keep k x)).
  Proof.
    intros Hv. unfold singleton_bins. rewrite add_item_sums, new_bins_sums.
    assert (HE : forall y, In y (update (k - 1) (fun s => s + valueof x) (repeat 0 k)) ->
                           y = 0 \/ y = valueof x).
    { intros y Hy. destruct (update_in _ _ _ _ Hy) as [H|(z & Hz & E)].
      - left. eapply repeat_spec; exact H.
      - right. apply repeat_spec in Hz. lia. }
    intros a b Ha Hb. destruct (HE a Ha); destruct (HE b Hb); lia.
  Qed.

  Lemma initial_fold_gap M k : forall l (h : @heap A),
    Forall (fun x => 0 <= valueof x <= M) l -> Forall (gap_ok M) h ->
    Forall (gap_ok M) (fold_left (fun h x => heap_push h (singleton_bins valueof true k x)) l h).
  Proof.
    induction l as [|x t IH]; intros h Hl Hh; cbn [fold_left]; [exact Hh|].
    apply IH; [exact (Forall_inv_tail Hl)|].
    apply heap_push_Forall; [exact Hh|]. apply pushed_gap_ok, singleton_bins_spread.
    exact (Forall_inv Hl).
  Qed.

  Lemma initial_heap_gap M k items : Forall (fun x => 0 <= valueof x <= M) items ->
    Forall (gap_ok M) (initial_heap valueof true k items).
  Proof.
    intros H. unfold initial_heap. apply initial_fold_gap; [|constructor].
    eapply Permutation_Forall; [symmetry; apply sort_desc_perm|exact H].
  Qed.

  Lemma kk_loop_gap M k its : 0 <= M -> forall fuel h, heap_inv k its h ->
    Forall (gap_ok M) h -> Forall (gap_ok M) (kk_loop fuel h).
  Proof.
    intros HM. induction fuel as [|f IH]; intros h Hh Hg; cbn [kk_loop]; [exact Hg|].
    destruct h as [|e1 [|e2 rest]]; try exact Hg.
    apply IH; [apply kk_step_inv; exact Hh|].
    destruct Hh as [HF _].
    destruct (Forall_inv HF) as [L1 _]. destruct (Forall_inv (Forall_inv_tail HF)) as [L2 _].
    destruct (Forall_inv Hg) as [S1 G1]. destruct (Forall_inv (Forall_inv_tail Hg)) as [S2 G2].
    apply heap_push_Forall; [exact (Forall_inv_tail (Forall_inv_tail Hg))|].
    apply pushed_gap_ok, kk_combine_spread; try assumption. congruence.
  Qed.

  Theorem kk_gap : forall k items b, (1 <= k)%nat -> items <> [] ->
    Forall (fun x => 0 <= valueof x) items ->
    kk valueof true k items = Ok b ->
    zmax (sums b) - zmin (sums b) <= zmax (map valueof items).
  Proof.
    intros k items b Hk Hne Hpos Hkk.
    set (M := zmax (map valueof items)).
    assert (HB : Forall (fun x => 0 <= valueof x <= M) items).
    { rewrite Forall_forall in Hpos. apply Forall_forall. intros x Hx. split; [apply Hpos; exact Hx|].
      pose proof (zmax_ge (map valueof items)) as G. rewrite Forall_forall in G.
      apply G, in_map, Hx. }
    assert (HM : 0 <= M).
    { destruct items as [|x t]; [congruence|]. pose proof (Forall_inv HB) as H. cbv beta in H. lia. }
    destruct (initial_heap_inv k items Hk) as [Hinv _].
    pose proof (kk_loop_inv k items (length items - 1) _ Hinv) as HL.
    pose proof (kk_loop_gap M k items HM (length items - 1) _ Hinv (initial_heap_gap M k items HB)) as HG.
    unfold kk in Hkk.
    destruct (kk_loop (length items - 1) (initial_heap valueof true k items)) as [|e r];
      [discriminate|].
    injection Hkk as <-.
    destruct HL as [HF _]. destruct (Forall_inv HF) as [L _]. destruct (Forall_inv HG) as [_ G].
    assert (Hs : sums (snd e) <> []).
    { unfold sums. destruct (snd e); cbn [length] in L; [lia|discriminate]. }
    apply G; [apply zmax_in|apply zmin_in]; exact Hs.
  Qed.

  (** ---- 5a. permutations and all_combinations ---- *)
  Lemma remove_nat_perm x : forall l, In x l -> Permutation l (x :: remove_nat x l).
  Proof.
    induction l as [|y t IH]; intros H; [destruct H|]. cbn [remove_nat].
    destruct (Nat.eqb x y) eqn:E.
    - apply Nat.eqb_eq in E. subst y. apply Permutation_refl.
    - destruct H as [H|H]; [subst y; rewrite Nat.eqb_refl in E; discriminate|].
      etransitivity; [apply perm_skip, IH, H|apply perm_swap].
  Qed.

  Lemma perms_fuel_sound : forall fuel l p,
    (length l <= fuel)%nat -> In p (perms_fuel fuel l) -> Permutation p l.
  Proof.
    induction fuel as [|f IH]; intros l p HL Hp.
    - destruct l as [|x0 t0]; [|cbn [length] in HL; lia].
      cbn [perms_fuel] in Hp. destruct Hp as [<-|[]]. constructor.
    - destruct l as [|x0 t0].
      + cbn [perms_fuel] in Hp. destruct Hp as [<-|[]]. constructor.
      + remember (x0 :: t0) as l eqn:El.
        assert (Hp' : In p (flat_map (fun x => map (cons x) (perms_fuel f (remove_nat x l))) l)).
        { rewrite El. rewrite El in Hp. exact Hp. }
        clear Hp. apply in_flat_map in Hp'. destruct Hp' as (x & Hx & Hp).
        apply in_map_iff in Hp. destruct Hp as (q & <- & Hq).
        pose proof (remove_nat_perm x l Hx) as P.
        etransitivity; [|symmetry; exact P]. apply perm_skip. apply IH; [|exact Hq].
        apply Permutation_length in P. cbn [length] in P. lia.
  Qed.

  Lemma range_from_length n : forall i, length (range_from i n) = n.
  Proof. induction n as [|m IH]; intros i; cbn [range_from length]; [reflexivity|]. rewrite IH. reflexivity. Qed.

  Lemma perms_sound_local n p : In p (perms n) -> Permutation p (range n).
  Proof.
    unfold perms. apply perms_fuel_sound. unfold range. rewrite range_from_length. lia.
  Qed.

  Lemma perms_fuel_nonempty : forall fuel l, perms_fuel fuel l <> [].
  Proof.
    induction fuel as [|f IH]; intros l; cbn [perms_fuel]; [discriminate|].
    destruct l as [|x t]; [discriminate|]. cbn [flat_map].
    intros E. apply app_eq_nil in E. destruct E as [E _].
    apply map_eq_nil in E. exact (IH _ E).
  Qed.

  Definition getbin (b : bins A) (i : nat) : bin A :=
    match nth_opt b i with Some x => x | None => empty_bin end.

  Lemma map_range_from_S {T} (f : nat -> T) n : forall i,
    map f (range_from (S i) n) = map (fun j => f (S j)) (range_from i n).
  Proof. induction n as [|m IH]; intros i; cbn [range_from map]; [reflexivity|]. rewrite IH. reflexivity. Qed.

  Lemma map_getbin_range (b : bins A) : map (getbin b) (range (length b)) = b.
  Proof.
    induction b as [|x t IH]; [reflexivity|].
    unfold range. cbn [length range_from map]. f_equal.
    rewrite map_range_from_S. exact IH.
  Qed.

  Lemma picked_perm (b : bins A) p : Permutation p (range (length b)) ->
    Permutation (map (getbin b) p) b.
  Proof.
    intros H. rewrite <- (map_getbin_range b) at 2. apply Permutation_map. exact H.
  Qed.

  Definition name_sorted (r : bins A) : bins A :=
    map (fun x => (fst x, sort_names nameof (snd x))) r.

  Lemma name_sorted_length r : length (name_sorted r) = length r.
  Proof. apply map_length. Qed.

  Lemma name_sorted_wf r : wf valueof r -> wf valueof (name_sorted r).
  Proof.
    unfold wf, name_sorted. intros H. apply Forall_map. eapply Forall_impl; [|exact H].
    intros x Hx. unfold wf_bin in *. cbn [fst snd]. rewrite Hx. apply zsum_perm, Permutation_map.
    symmetry. apply sort_asc_perm.
  Qed.

  Lemma name_sorted_contents r : Permutation (contents (name_sorted r)) (contents r).
  Proof.
    induction r as [|x t IH]; [apply Permutation_refl|].
    unfold name_sorted in *. cbn [map]. rewrite !contents_cons. cbn [snd].
    apply Permutation_app; [apply sort_asc_perm|exact IH].
  Qed.

  Lemma combo_of_perm_eq (b1 b2 : bins A) p :
    combo_of_perm nameof true b1 b2 p = sort_bins (name_sorted (zip_combine (map (getbin b1) p) b2)).
  Proof. reflexivity. Qed.

  Lemma combo_of_perm_ok k (b1 b2 : bins A) p :
    length b1 = k -> length b2 = k -> wf valueof b1 -> wf valueof b2 ->
    Permutation p (range k) ->
    length (combo_of_perm nameof true b1 b2 p) = k /\
    wf valueof (combo_of_perm nameof true b1 b2 p) /\
    Permutation (contents (combo_of_perm nameof true b1 b2 p)) (contents b1 ++ contents b2).
  Proof.
    intros L1 L2 W1 W2 Hp. rewrite combo_of_perm_eq.
    assert (PP : Permutation (map (getbin b1) p) b1) by (apply picked_perm; rewrite L1; exact Hp).
    assert (LP : length (map (getbin b1) p) = k) by (rewrite (Permutation_length PP); exact L1).
    split; [|split].
    - rewrite sort_bins_length, name_sorted_length, zip_combine_length. exact LP.
    - apply sort_bins_wf, name_sorted_wf, zip_combine_wf; [|exact W2].
      eapply wf_perm; [symmetry; exact PP|exact W1].
    - rewrite sort_bins_contents, name_sorted_contents, zip_combine_contents by congruence.
      apply Permutation_app_tail, contents_perm, PP.
  Qed.

  Lemma dedup_combos_in : forall l seen c,
    In c (dedup_combos nameof true seen l) -> In c l.
  Proof.
    induction l as [|b t IH]; intros seen c H; cbn [dedup_combos] in H; [exact H|].
    destruct (existsb (key_eqb (combo_key nameof true b)) seen).
    - right. exact (IH _ _ H).
    - destruct H as [H|H]; [left; exact H|right; exact (IH _ _ H)].
  Qed.

  Lemma all_combinations_ok k (b1 b2 c : bins A) :
    length b1 = k -> length b2 = k -> wf valueof b1 -> wf valueof b2 ->
    In c (all_combinations nameof true b1 b2) ->
    length c = k /\ wf valueof c /\ Permutation (contents c) (contents b1 ++ contents b2).
  Proof.
    intros L1 L2 W1 W2 H. unfold all_combinations in H. apply dedup_combos_in in H.
    apply in_map_iff in H. destruct H as (p & <- & Hp).
    apply combo_of_perm_ok; try assumption. rewrite <- L1. apply perms_sound_local. exact Hp.
  Qed.

  Lemma all_combinations_nonempty (b1 b2 : bins A) : all_combinations nameof true b1 b2 <> [].
  Proof.
    unfold all_combinations, perms.
    destruct (perms_fuel (length b1) (range (length b1))) as [|p ps] eqn:E.
    - exfalso. exact (perms_fuel_nonempty _ _ E).
    - cbn [map dedup_combos existsb]. discriminate.
  Qed.

  (** a CKK expansion keeps the heap invariant and shortens the heap by one *)
  Lemma ckk_child_inv k its e1 e2 rest c :
    heap_inv k its (e1 :: e2 :: rest) ->
    In c (all_combinations nameof true (snd e1) (snd e2)) ->
    heap_inv k its (heap_push rest c).
  Proof.
    intros Hh Hc. pose proof Hh as [HF _].
    destruct (Forall_inv HF) as [L1 W1]. destruct (Forall_inv (Forall_inv_tail HF)) as [L2 W2].
    destruct (all_combinations_ok k _ _ c L1 L2 W1 W2 Hc) as (Lc & Wc & Pc).
    eapply replace_top_inv; eassumption.
  Qed.

  (** ---- 5b. one unfolding of ckk_explore ---- *)
  Definition tick (st : @ckk_state A) : @ckk_state A :=
    mk_ckk (ckk_best st) (ckk_part st) (ckk_yields st) false (S (ckk_nodes st)).

  Definition pruned (k : nat) (h : @heap A) (best : option Z) : bool :=
    match ckk_bound k h with Some lb => le_best lb best | None => false end.

  Definition accept (mode : bool) (e : @hentry A) (st : @ckk_state A) : @ckk_state A :=
    mk_ckk (if mode then Some (fst e) else ckk_best st) (Some (snd e))
           (snd e :: ckk_yields st) (fst e =? 0) (ckk_nodes st).

  Definition children (rest : @heap A) (b1 b2 : bins A) : list (@heap A) :=
    map (heap_push rest) (ckk_children nameof true b1 b2).

  Lemma ckk_explore_eq fuel mode k h st :
    ckk_explore nameof true fuel mode k h st =
    if ckk_stop st then st else
    if pruned k h (ckk_best st) then tick st else
    match h with
    | [] => tick st
    | [e] => if gt_best (fst e) (ckk_best st) then accept mode e (tick st) else tick st
    | e1 :: e2 :: rest =>
        match fuel with
        | O => tick st
        | S f => fold_left (fun s c => ckk_explore nameof true f mode k c s)
                           (rev (sort_asc topdiff (children rest (snd e1) (snd e2)))) (tick st)
        end
    end.
  Proof. destruct fuel; reflexivity. Qed.

  Lemma children_in rest b1 b2 c :
    In c (rev (sort_asc topdiff (children rest b1 b2))) ->
    exists comb, In comb (all_combinations nameof true b1 b2) /\ c = heap_push rest comb.
  Proof.
    intros H. apply in_rev in H. apply sort_asc_In in H. unfold children in H.
    apply in_map_iff in H. destruct H as (comb & E & Hc). exists comb.
    split; [apply ckk_children_sound; exact Hc|symmetry; exact E].
  Qed.

  (** the same, keeping the information that the combination is a child (survived the de-duplication by sums) *)
  Lemma children_in_ckk rest b1 b2 c :
    In c (rev (sort_asc topdiff (children rest b1 b2))) ->
    exists comb, In comb (ckk_children nameof true b1 b2) /\ c = heap_push rest comb.
  Proof.
    intros H. apply in_rev in H. apply sort_asc_In in H. unfold children in H.
    apply in_map_iff in H. destruct H as (comb & E & Hc). exists comb. split; [exact Hc|symmetry; exact E].
  Qed.

  Lemma children_nonempty rest b1 b2 : rev (sort_asc topdiff (children rest b1 b2)) <> [].
  Proof.
    intros E. apply (f_equal (@length _)) in E.
    rewrite rev_length, sort_asc_length in E. unfold children in E. rewrite map_length in E.
    pose proof (ckk_children_nonempty nameof true b1 b2 (all_combinations_nonempty b1 b2)) as N.
    destruct (ckk_children nameof true b1 b2); [congruence|discriminate].
  Qed.

  (** ---- generic preservation principle for ckk_explore ---- *)
  Section Explore.
    Context (mode : bool) (k : nat).
    Context (HI : @heap A -> Prop).
    Context (P : option Z -> option (bins A) -> list (bins A) -> Prop).
    Context (HI_child : forall e1 e2 rest c, HI (e1 :: e2 :: rest) ->
               In c (all_combinations nameof true (snd e1) (snd e2)) -> HI (heap_push rest c)).
    Context (P_leaf : forall e best part ys, HI [e] -> gt_best (fst e) best = true ->
               P best part ys -> P (if mode then Some (fst e) else best) (Some (snd e)) (snd e :: ys)).

    Definition Pst (st : @ckk_state A) : Prop := P (ckk_best st) (ckk_part st) (ckk_yields st).

    Lemma fold_preserves (g : @ckk_state A -> @heap A -> @ckk_state A) : forall l,
      (forall c s, In c l -> Pst s -> Pst (g s c)) -> forall st, Pst st -> Pst (fold_left g l st).
    Proof.
      induction l as [|c t IH]; intros Hg st Hst; cbn [fold_left]; [exact Hst|].
      apply IH.
      - intros c' s Hc Hs. apply Hg; [right; exact Hc|exact Hs].
      - apply Hg; [left; reflexivity|exact Hst].
    Qed.

    Lemma explore_step fuel :
      (forall f, fuel = S f -> forall h st, HI h -> Pst st -> Pst (ckk_explore nameof true f mode k h st)) ->
      forall h st, HI h -> Pst st -> Pst (ckk_explore nameof true fuel mode k h st).
    Proof.
      intros IH h st Hh Hst. rewrite ckk_explore_eq.
      destruct (ckk_stop st); [exact Hst|].
      assert (Ht : Pst (tick st)) by exact Hst.
      destruct (pruned k h (ckk_best st)); [exact Ht|].
      destruct h as [|e1 [|e2 rest]]; [exact Ht| |].
      - destruct (gt_best (fst e1) (ckk_best st)) eqn:G; [|exact Ht].
        unfold Pst, accept. cbn [ckk_best ckk_part ckk_yields tick].
        apply (P_leaf e1 (ckk_best st) (ckk_part st) (ckk_yields st)); assumption.
      - destruct fuel as [|f]; [exact Ht|].
        apply fold_preserves; [|exact Ht].
        intros c s Hc Hs. apply (IH f eq_refl); [|exact Hs].
        destruct (children_in _ _ _ _ Hc) as (comb & Hcomb & ->).
        eapply HI_child; eassumption.
    Qed.

    Lemma explore_preserves : forall fuel h st,
      HI h -> Pst st -> Pst (ckk_explore nameof true fuel mode k h st).
    Proof.
      induction fuel as [|f IH]; apply explore_step.
      - intros f E. discriminate.
      - intros f' E. injection E as <-. exact IH.
    Qed.
  End Explore.

  (** ---- 5c. totality: a leaf is reached and accepted ---- *)
  Lemma explore_part_stays mode k fuel h st :
    ckk_part st <> None -> ckk_part (ckk_explore nameof true fuel mode k h st) <> None.
  Proof.
    intros H.
    apply (explore_preserves mode k (fun _ => True) (fun _ part _ => part <> None)); auto.
    intros e best part ys _ _ _. discriminate.
  Qed.

  Lemma fold_part_stays mode k f : forall cs s, ckk_part s <> None ->
    ckk_part (fold_left (fun s c => ckk_explore nameof true f mode k c s) cs s) <> None.
  Proof.
    induction cs as [|c1 cs IHcs]; intros s Hs; cbn [fold_left]; [exact Hs|].
    apply IHcs. apply explore_part_stays. exact Hs.
  Qed.

  Lemma explore_total mode k : forall fuel h st,
    (1 <= length h)%nat -> (length h <= S fuel)%nat ->
    ckk_best st = None -> ckk_stop st = false ->
    ckk_part (ckk_explore nameof true fuel mode k h st) <> None.
  Proof.
    induction fuel as [|f IH]; intros h st H1 H2 Hb Hs; rewrite ckk_explore_eq; rewrite Hs, Hb.
    - assert (Hp : pruned k h None = false) by (unfold pruned; destruct (ckk_bound k h); reflexivity).
      rewrite Hp. destruct h as [|e1 [|e2 rest]]; cbn [length] in *; try lia.
      cbn [gt_best accept ckk_part]. discriminate.
    - assert (Hp : pruned k h None = false) by (unfold pruned; destruct (ckk_bound k h); reflexivity).
      rewrite Hp. destruct h as [|e1 [|e2 rest]]; cbn [length] in *; try lia.
      + cbn [gt_best accept ckk_part]. discriminate.
      + pose proof (children_nonempty rest (snd e1) (snd e2)) as N.
        pose proof (children_in rest (snd e1) (snd e2)) as HIn.
        destruct (rev (sort_asc topdiff (children rest (snd e1) (snd e2)))) as [|c0 cs]; [congruence|].
        cbn [fold_left]. apply fold_part_stays.
        destruct (HIn c0 (or_introl eq_refl)) as (comb & _ & ->).
        apply IH; try rewrite heap_push_length; try lia; [exact Hb|reflexivity].
  Qed.

  (** the recorded best partition, if any, is always a partition of the items *)
  Lemma explore_part_valid mode k its fuel h st : heap_inv k its h ->
    (forall b, ckk_part st = Some b -> is_partition valueof k its b) ->
    forall b, ckk_part (ckk_explore nameof true fuel mode k h st) = Some b ->
              is_partition valueof k its b.
  Proof.
    intros Hh Hst.
    apply (explore_preserves mode k (heap_inv k its)
             (fun _ part _ => forall b, part = Some b -> is_partition valueof k its b)).
    - intros e1 e2 rest c Hh' Hc. eapply ckk_child_inv; eassumption.
    - intros e best part ys Hh' _ _ b E. injection E as <-. apply single_heap_partition. exact Hh'.
    - exact Hh.
    - exact Hst.
  Qed.

  (** ---- per-entry facts that hold for everything pushed through heap_push ---- *)
  Definition key_ok (e : @hentry A) : Prop := fst e = - bins_diff (snd e).
  Definition sorted_ok (e : @hentry A) : Prop := StronglySorted Z.le (sums (snd e)).

  Lemma initial_fold_Forall (Q : @hentry A -> Prop) keep k :
    (forall b, Q (- bins_diff (sort_bins b), sort_bins b)) ->
    forall l (h : @heap A), Forall Q h ->
    Forall Q (fold_left (fun h x => heap_push h (singleton_bins valueof keep k x)) l h).
  Proof.
    intros HQ. induction l as [|x t IH]; intros h Hh; cbn [fold_left]; [exact Hh|].
    apply IH. apply heap_push_Forall; [exact Hh|apply HQ].
  Qed.

  Lemma initial_heap_Forall (Q : @hentry A -> Prop) keep k items :
    (forall b, Q (- bins_diff (sort_bins b), sort_bins b)) ->
    Forall Q (initial_heap valueof keep k items).
  Proof. intros HQ. unfold initial_heap. apply initial_fold_Forall; [exact HQ|constructor]. Qed.

  Lemma child_Forall (Q : @hentry A -> Prop) e1 e2 rest c :
    (forall b, Q (- bins_diff (sort_bins b), sort_bins b)) ->
    Forall Q (e1 :: e2 :: rest) -> Forall Q (heap_push rest c).
  Proof.
    intros HQ HF. apply heap_push_Forall; [exact (Forall_inv_tail (Forall_inv_tail HF))|apply HQ].
  Qed.

  Lemma pushed_key_ok (b : bins A) : key_ok (- bins_diff (sort_bins b), sort_bins b).
  Proof. reflexivity. Qed.

  Lemma pushed_sorted_ok (b : bins A) : sorted_ok (- bins_diff (sort_bins b), sort_bins b).
  Proof. apply sort_bins_sorted. Qed.

  (** ---- facts about a whole run ---- *)
  Definition run_mode (init : option Z) : bool := match init with None => true | Some _ => false end.

  Lemma run_valid mode init k items : (1 <= k)%nat ->
    Forall (is_partition valueof k items) (ckk_yields (ckk_run valueof nameof true mode init k items)).
  Proof.
    intros Hk. unfold ckk_run.
    apply (explore_preserves mode k (heap_inv k items)
             (fun _ _ ys => Forall (is_partition valueof k items) ys)).
    - intros e1 e2 rest c Hh Hc. eapply ckk_child_inv; eassumption.
    - intros e best part ys Hh _ Hys. constructor; [apply single_heap_partition; exact Hh|exact Hys].
    - apply initial_heap_inv. exact Hk.
    - constructor.
  Qed.

  Lemma run_hd mode init k items :
    let st := ckk_run valueof nameof true mode init k items in
    ckk_part st = hd_error (ckk_yields st).
  Proof.
    unfold ckk_run.
    apply (explore_preserves mode k (fun _ => True) (fun _ part ys => part = hd_error ys)); auto.
    reflexivity.
  Qed.

  Lemma run_sorted mode init k items :
    Forall (fun b => StronglySorted Z.le (sums b))
           (ckk_yields (ckk_run valueof nameof true mode init k items)).
  Proof.
    unfold ckk_run.
    apply (explore_preserves mode k (Forall sorted_ok)
             (fun _ _ ys => Forall (fun b => StronglySorted Z.le (sums b)) ys)).
    - intros e1 e2 rest c Hh _. eapply child_Forall; [exact pushed_sorted_ok|exact Hh].
    - intros e best part ys Hh _ Hys. constructor; [exact (Forall_inv Hh)|exact Hys].
    - apply initial_heap_Forall. exact pushed_sorted_ok.
    - constructor.
  Qed.

  Definition chain_ok (best : option Z) (ys : list (bins A)) : Prop :=
    best = option_map (fun b => - bins_diff b) (hd_error ys) /\
    StronglySorted (fun a b => bins_diff a < bins_diff b) ys.

  Lemma run_chain k items :
    let st := ckk_run valueof nameof true true None k items in
    chain_ok (ckk_best st) (ckk_yields st).
  Proof.
    unfold ckk_run.
    apply (explore_preserves true k (Forall key_ok) (fun best _ ys => chain_ok best ys)).
    - intros e1 e2 rest c Hh _. eapply child_Forall; [exact pushed_key_ok|exact Hh].
    - intros e best part ys Hh G [Hb Hs]. pose proof (Forall_inv Hh) as Hk. unfold key_ok in Hk.
      split.
      + cbn [hd_error option_map]. rewrite Hk. reflexivity.
      + constructor; [exact Hs|].
        destruct ys as [|y t]; [constructor|].
        cbn [hd_error option_map] in Hb. subst best. cbn [gt_best] in G.
        inversion Hs as [|y' t' Hs' Hy]; subst y' t'.
        constructor; [lia|]. eapply Forall_impl; [|exact Hy]. cbv beta. intros z Hz. lia.
    - apply initial_heap_Forall. exact pushed_key_ok.
    - split; [reflexivity|constructor].
  Qed.

  Lemma sort_bins_partition k its (b : bins A) :
    is_partition valueof k its b -> is_partition valueof k its (sort_bins b).
  Proof.
    intros (HP & HL & HW). split; [|split].
    - rewrite sort_bins_contents. exact HP.
    - rewrite sort_bins_length. exact HL.
    - apply sort_bins_wf. exact HW.
  Qed.

  Lemma run_total k items : items <> [] ->
    ckk_part (ckk_run valueof nameof true true None k items) <> None.
  Proof.
    intros Hne. unfold ckk_run. apply explore_total; try reflexivity.
    - rewrite initial_heap_length. destruct items; [congruence|cbn [length]; lia].
    - rewrite initial_heap_length. lia.
  Qed.

  (** ---- 5. ckk returns a partition (C01) ---- *)
  Theorem ckk_partition : forall k items, (1 <= k)%nat -> items <> [] ->
    exists b, ckk valueof nameof true k items = Ok b /\ is_partition valueof k items b.
  Proof.
    intros k items Hk Hne.
    pose proof (run_valid true None k items Hk) as HV.
    pose proof (run_hd true None k items) as HH. cbv zeta in HH.
    pose proof (run_total k items Hne) as HT.
    unfold ckk.
    destruct (ckk_part (ckk_run valueof nameof true true None k items)) as [b|]; [|congruence].
    exists (sort_bins b). split; [reflexivity|]. apply sort_bins_partition.
    destruct (ckk_yields (ckk_run valueof nameof true true None k items)) as [|y ys];
      cbn [hd_error] in HH; [discriminate|].
    injection HH as ->. exact (Forall_inv HV).
  Qed.

  (** ---- 6. the generator (C11) ---- *)
  Lemma ckk_generator_valid_any : forall k items init b, (1 <= k)%nat ->
    In b (ckk_generator valueof nameof true k items init) -> is_partition valueof k items b.
  Proof.
    intros k items init b Hk Hb. unfold ckk_generator in Hb. apply in_rev in Hb.
    pose proof (run_valid (run_mode init) init k items Hk) as HV.
    rewrite Forall_forall in HV. apply HV. exact Hb.
  Qed.

  Theorem ckk_generator_valid : forall k items b, (1 <= k)%nat -> items <> [] ->
    In b (ckk_generator valueof nameof true k items None) -> is_partition valueof k items b.
  Proof. intros k items b Hk _ Hb. eapply ckk_generator_valid_any; eassumption. Qed.

  (** every yielded bins-array is sorted by sum, so [bins_diff] is its max-min difference *)
  Lemma bins_diff_sorted (b : bins A) : StronglySorted Z.le (sums b) ->
    bins_diff b = zmax (sums b) - zmin (sums b).
  Proof.
    unfold bins_diff. generalize (sums b) as l. intros l Hs.
    destruct l as [|x t]; [reflexivity|].
    assert (Hmin : zmin (x :: t) = x).
    { pose proof (zmin_le (x :: t)) as H1. pose proof (zmin_in (x :: t)) as H2.
      inversion Hs as [|x' t' _ Hx]; subst x' t'. rewrite Forall_forall in H1, Hx.
      destruct H2 as [H2|H2]; [discriminate|symmetry; exact H2|].
      pose proof (Hx _ H2). pose proof (H1 x (or_introl eq_refl)). lia. }
    assert (Hmax : zmax (x :: t) = last (x :: t) 0).
    { pose proof (zmax_ge (x :: t)) as H1. pose proof (zmax_in (x :: t)) as H2.
      assert (HL : In (last (x :: t) 0) (x :: t)).
      { destruct (exists_last (l := x :: t)) as (l' & a & E); [discriminate|].
        rewrite E, last_last. apply in_or_app. right. left. reflexivity. }
      rewrite Forall_forall in H1. pose proof (H1 _ HL) as H3.
      assert (HG : forall l, StronglySorted Z.le l -> forall y, In y l -> y <= last l 0).
      { induction 1 as [|z r Hr IHr Hz]; intros y Hy; [destruct Hy|].
        destruct r as [|z' r'].
        - destruct Hy as [<-|[]]. cbn [last]. lia.
        - change (last (z :: z' :: r') 0) with (last (z' :: r') 0).
          destruct Hy as [<-|Hy]; [|apply IHr; exact Hy].
          rewrite Forall_forall in Hz. pose proof (Hz z' (or_introl eq_refl)).
          pose proof (IHr z' (or_introl eq_refl)). lia. }
      pose proof (HG _ Hs _ (H2 ltac:(discriminate))). lia. }
    rewrite Hmin, Hmax. reflexivity.
  Qed.

  Theorem ckk_generator_sorted : forall k items init b,
    In b (ckk_generator valueof nameof true k items init) ->
    StronglySorted Z.le (sums b) /\ bins_diff b = zmax (sums b) - zmin (sums b).
  Proof.
    intros k items init b Hb. unfold ckk_generator in Hb. apply in_rev in Hb.
    pose proof (run_sorted (run_mode init) init k items) as HS.
    rewrite Forall_forall in HS. pose proof (HS _ Hb) as H. split; [exact H|].
    apply bins_diff_sorted. exact H.
  Qed.

  (** the yielded differences strictly decrease, and ckk returns the last yield (sorted) *)
  Theorem ckk_generator_decreasing : forall k items,
    StronglySorted (fun a b => bins_diff b < bins_diff a)
                   (ckk_generator valueof nameof true k items None) /\
    ckk valueof nameof true k items =
      match last_opt (ckk_generator valueof nameof true k items None) with
      | Some b_last => Ok (sort_bins b_last)
      | None => Err OtherError
      end.
  Proof.
    intros k items. unfold ckk_generator, ckk, last_opt. rewrite rev_involutive. split.
    - apply (SSorted_rev (fun a b : bins A => bins_diff a < bins_diff b)).
      apply (run_chain k items).
    - pose proof (run_hd true None k items) as HH. cbv zeta in HH. rewrite HH.
      destruct (ckk_yields (ckk_run valueof nameof true true None k items)); reflexivity.
  Qed.

  Corollary ckk_generator_last : forall k items, items <> [] ->
    exists b_last, last_opt (ckk_generator valueof nameof true k items None) = Some b_last /\
                   ckk valueof nameof true k items = Ok (sort_bins b_last).
  Proof.
    intros k items Hne. destruct (ckk_generator_decreasing k items) as [_ E].
    pose proof (run_total k items Hne) as HT.
    pose proof (run_hd true None k items) as HH. cbv zeta in HH.
    unfold ckk_generator, last_opt in *. rewrite rev_involutive in *.
    destruct (ckk_yields (ckk_run valueof nameof true true None k items)) as [|y ys].
    - cbn [hd_error] in HH. congruence.
    - exists y. split; [reflexivity|exact E].
  Qed.

  (** ---- 7. the pruning bound is admissible (C13 / C02 ingredient) ---- *)

  (** h' is reachable from h by repeated CKK expansions (the children of a node are its combinations
      de-duplicated by their sums: [ckk_children]) *)
  Inductive expands : @heap A -> @heap A -> Prop :=
  | expands_refl h : expands h h
  | expands_step e1 e2 rest c h' :
      In c (ckk_children nameof true (snd e1) (snd e2)) ->
      expands (heap_push rest c) h' ->
      expands (e1 :: e2 :: rest) h'.

  Definition heap_full (k : nat) (its : list A) (h : @heap A) : Prop :=
    heap_inv k its h /\ Forall sorted_ok h /\ Forall key_ok h.

  Lemma initial_heap_full k items : (1 <= k)%nat ->
    heap_full k items (initial_heap valueof true k items).
  Proof.
    intros Hk. split; [apply initial_heap_inv; exact Hk|split].
    - apply initial_heap_Forall. exact pushed_sorted_ok.
    - apply initial_heap_Forall. exact pushed_key_ok.
  Qed.

  Lemma child_full k its e1 e2 rest c :
    heap_full k its (e1 :: e2 :: rest) ->
    In c (all_combinations nameof true (snd e1) (snd e2)) ->
    heap_full k its (heap_push rest c).
  Proof.
    intros (H1 & H2 & H3) Hc. split; [eapply ckk_child_inv; eassumption|split].
    - eapply child_Forall; [exact pushed_sorted_ok|exact H2].
    - eapply child_Forall; [exact pushed_key_ok|exact H3].
  Qed.

  Lemma expands_full k its h h' : expands h h' -> heap_full k its h -> heap_full k its h'.
  Proof.
    induction 1 as [h|e1 e2 rest c h' Hc He IH]; intros Hf; [exact Hf|].
    apply ckk_children_sound in Hc. apply IH. eapply child_full; eassumption.
  Qed.

  (** the total of all sums in the heap is the total value of the items *)
  Lemma flat_total k its h : heap_inv k its h ->
    zsum (heap_flat_sums h) = zsum (map valueof its).
  Proof.
    intros [HF HP]. rewrite <- (zsum_perm _ _ (Permutation_map valueof HP)). clear HP.
    induction HF as [|e t He Ht IH]; [reflexivity|].
    unfold heap_flat_sums in *. cbn [flat_map]. rewrite heap_contents_cons, map_app, !zsum_app, IH.
    destruct He as [_ W]. rewrite (wf_total valueof _ W). reflexivity.
  Qed.

  Lemma sums_nonneg (b : bins A) : wf valueof b ->
    Forall (fun x => 0 <= valueof x) (contents b) -> Forall (fun s => 0 <= s) (sums b).
  Proof.
    intros W. induction W as [|bn t Hb Ht IH]; intros HC; [constructor|].
    rewrite contents_cons in HC. apply Forall_app in HC. destruct HC as [HC1 HC2].
    cbn [sums map]. constructor; [|apply IH; exact HC2].
    unfold wf_bin in Hb. rewrite Hb. apply zsum_nonneg. apply Forall_map. exact HC1.
  Qed.

  Lemma heap_sums_nonneg k its h : heap_inv k its h ->
    Forall (fun x => 0 <= valueof x) its ->
    Forall (fun e => Forall (fun s => 0 <= s) (sums (snd e))) h.
  Proof.
    intros [HF HP] Hpos.
    assert (HC : Forall (fun x => 0 <= valueof x) (heap_contents h)).
    { eapply Permutation_Forall; [symmetry; exact HP|exact Hpos]. }
    clear HP Hpos. induction HF as [|e t He Ht IH]; [constructor|].
    rewrite heap_contents_cons in HC. apply Forall_app in HC. destruct HC as [HC1 HC2].
    constructor; [|apply IH; exact HC2]. apply sums_nonneg; [exact (proj2 He)|exact HC1].
  Qed.

  (** every element of l1 is below some element of l2 *)
  Definition dom (l1 l2 : list Z) : Prop := forall x, In x l1 -> exists y, In y l2 /\ x <= y.

  Lemma dom_refl l : dom l l.
  Proof. intros x Hx. exists x. split; [exact Hx|lia]. Qed.

  Lemma dom_trans l1 l2 l3 : dom l1 l2 -> dom l2 l3 -> dom l1 l3.
  Proof.
    intros H1 H2 x Hx. destruct (H1 x Hx) as (y & Hy & L1). destruct (H2 y Hy) as (z & Hz & L2).
    exists z. split; [exact Hz|lia].
  Qed.

  Lemma dom_perm_l l1 l1' l2 : Permutation l1 l1' -> dom l1 l2 -> dom l1' l2.
  Proof. intros P H x Hx. apply H. eapply Permutation_in; [symmetry; exact P|exact Hx]. Qed.

  Lemma dom_perm_r l1 l2 l2' : Permutation l2 l2' -> dom l1 l2 -> dom l1 l2'.
  Proof.
    intros P H x Hx. destruct (H x Hx) as (y & Hy & L). exists y. split; [|exact L].
    eapply Permutation_in; [exact P|exact Hy].
  Qed.

  Lemma dom_app l1 l1' l2 : dom l1 l2 -> dom l1' l2 -> dom (l1 ++ l1') l2.
  Proof. intros H1 H2 x Hx. apply in_app_or in Hx. destruct Hx as [Hx|Hx]; [apply H1|apply H2]; exact Hx. Qed.

  Lemma dom_app_r1 l1 l2 l3 : dom l1 l2 -> dom l1 (l2 ++ l3).
  Proof.
    intros H x Hx. destruct (H x Hx) as (y & Hy & L). exists y. split; [|exact L].
    apply in_or_app. left. exact Hy.
  Qed.

  Lemma dom_app_r2 l1 l2 l3 : dom l1 l3 -> dom l1 (l2 ++ l3).
  Proof.
    intros H x Hx. destruct (H x Hx) as (y & Hy & L). exists y. split; [|exact L].
    apply in_or_app. right. exact Hy.
  Qed.

  Lemma dom_zmax l1 l2 : l1 <> [] -> dom l1 l2 -> zmax l1 <= zmax l2.
  Proof.
    intros Hne H. destruct (H _ (zmax_in l1 Hne)) as (y & Hy & L).
    pose proof (zmax_ge l2) as G. rewrite Forall_forall in G. pose proof (G y Hy). lia.
  Qed.

  Lemma zipsum_dom a : forall c, length a = length c ->
    Forall (fun x => 0 <= x) a -> Forall (fun x => 0 <= x) c ->
    dom a (zipsum a c) /\ dom c (zipsum a c).
  Proof.
    induction a as [|a0 a' IH]; intros [|c0 c'] HL Ha Hc; cbn [length] in HL; try discriminate.
    - split; intros x Hx; destruct Hx.
    - cbn [zipsum].
      destruct (IH c') as [D1 D2]; [lia|exact (Forall_inv_tail Ha)|exact (Forall_inv_tail Hc)|].
      pose proof (Forall_inv Ha) as Ha0. pose proof (Forall_inv Hc) as Hc0. cbv beta in Ha0, Hc0.
      split; intros x [Hx|Hx].
      + exists (a0 + c0). split; [left; reflexivity|lia].
      + destruct (D1 x Hx) as (y & Hy & L). exists y. split; [right; exact Hy|exact L].
      + exists (a0 + c0). split; [left; reflexivity|lia].
      + destruct (D2 x Hx) as (y & Hy & L). exists y. split; [right; exact Hy|exact L].
  Qed.

  Lemma name_sorted_sums r : sums (name_sorted r) = sums r.
  Proof. unfold sums, name_sorted. rewrite map_map. reflexivity. Qed.

  Lemma combo_sums_dom (b1 b2 : bins A) p : length b1 = length b2 ->
    Permutation p (range (length b1)) ->
    Forall (fun s => 0 <= s) (sums b1) -> Forall (fun s => 0 <= s) (sums b2) ->
    dom (sums b1) (sums (combo_of_perm nameof true b1 b2 p)) /\
    dom (sums b2) (sums (combo_of_perm nameof true b1 b2 p)).
  Proof.
    intros HL Hp N1 N2. rewrite combo_of_perm_eq.
    pose proof (picked_perm b1 p Hp) as PP.
    assert (PS : Permutation (sums (map (getbin b1) p)) (sums b1)) by (apply Permutation_map; exact PP).
    destruct (zipsum_dom (sums (map (getbin b1) p)) (sums b2)) as [D1 D2].
    - rewrite (Permutation_length PS). unfold sums. rewrite !map_length. exact HL.
    - eapply Permutation_Forall; [symmetry; exact PS|exact N1].
    - exact N2.
    - rewrite <- zip_combine_sums in D1, D2.
      rewrite <- (name_sorted_sums (zip_combine (map (getbin b1) p) b2)) in D1, D2.
      split.
      + eapply dom_perm_r; [symmetry; apply sort_bins_sums_perm|].
        eapply dom_perm_l; [exact PS|exact D1].
      + eapply dom_perm_r; [symmetry; apply sort_bins_sums_perm|exact D2].
  Qed.

  Lemma all_combinations_dom (b1 b2 c : bins A) : length b1 = length b2 ->
    Forall (fun s => 0 <= s) (sums b1) -> Forall (fun s => 0 <= s) (sums b2) ->
    In c (all_combinations nameof true b1 b2) ->
    dom (sums b1) (sums c) /\ dom (sums b2) (sums c).
  Proof.
    intros HL N1 N2 H. unfold all_combinations in H. apply dedup_combos_in in H.
    apply in_map_iff in H. destruct H as (p & <- & Hp).
    apply combo_sums_dom; try assumption. apply perms_sound_local. exact Hp.
  Qed.

  Lemma flat_push_perm rest (c : bins A) :
    Permutation (heap_flat_sums (heap_push rest c)) (sums (sort_bins c) ++ heap_flat_sums rest).
  Proof.
    unfold heap_flat_sums, heap_push. cbv zeta.
    rewrite (Permutation_flat_map _ (heap_insert_perm _ rest)). apply Permutation_refl.
  Qed.

  Lemma expand_dom k its e1 e2 rest c :
    heap_inv k its (e1 :: e2 :: rest) -> Forall (fun x => 0 <= valueof x) its ->
    In c (all_combinations nameof true (snd e1) (snd e2)) ->
    dom (heap_flat_sums (e1 :: e2 :: rest)) (heap_flat_sums (heap_push rest c)).
  Proof.
    intros Hh Hpos Hc. pose proof (heap_sums_nonneg k its _ Hh Hpos) as HN.
    destruct Hh as [HF _].
    destruct (Forall_inv HF) as [L1 _]. destruct (Forall_inv (Forall_inv_tail HF)) as [L2 _].
    destruct (all_combinations_dom (snd e1) (snd e2) c) as [D1 D2];
      [congruence|exact (Forall_inv HN)|exact (Forall_inv (Forall_inv_tail HN))|exact Hc|].
    eapply dom_perm_r; [symmetry; apply flat_push_perm|].
    unfold heap_flat_sums. cbn [flat_map].
    apply dom_app; [|apply dom_app].
    - apply dom_app_r1. eapply dom_perm_r; [symmetry; apply sort_bins_sums_perm|exact D1].
    - apply dom_app_r1. eapply dom_perm_r; [symmetry; apply sort_bins_sums_perm|exact D2].
    - apply dom_app_r2, dom_refl.
  Qed.

  Lemma expands_dom k its h h' : expands h h' -> heap_inv k its h ->
    Forall (fun x => 0 <= valueof x) its ->
    dom (heap_flat_sums h) (heap_flat_sums h').
  Proof.
    induction 1 as [h|e1 e2 rest c h' Hc He IH]; intros Hh Hpos; [apply dom_refl|].
    apply ckk_children_sound in Hc.
    eapply dom_trans; [eapply expand_dom; eassumption|].
    apply IH; [eapply ckk_child_inv; eassumption|exact Hpos].
  Qed.

  Lemma zsum_ge_len m l : Forall (fun x => m <= x) l -> Z.of_nat (length l) * m <= zsum l.
  Proof.
    induction 1 as [|x t Hx Ht IH]; [cbn; lia|].
    cbn [length zsum fold_right]. fold (zsum t). lia.
  Qed.

  (** in any list, the minimum is at most the average of the others once a maximum is set aside *)
  Lemma zmin_avg l : l <> [] -> (Z.of_nat (length l) - 1) * zmin l <= zsum l - zmax l.
  Proof.
    intros Hne. destruct (in_split _ _ (zmax_in l Hne)) as (l1 & l2 & E).
    pose proof (zmin_le l) as HM.
    set (m := zmax l) in *. set (mn := zmin l) in *. clearbody m mn. subst l.
    apply Forall_app in HM. destruct HM as [HM1 HM2]. apply Forall_inv_tail in HM2.
    pose proof (zsum_ge_len _ _ HM1) as G1. pose proof (zsum_ge_len _ _ HM2) as G2.
    rewrite zsum_app, app_length. cbn [length zsum fold_right]. fold (zsum l2).
    nia.
  Qed.

  Lemma expands_inv h h' : expands h h' ->
    h' = h \/ exists e1 e2 rest c, h = e1 :: e2 :: rest /\
                 In c (ckk_children nameof true (snd e1) (snd e2)) /\
                 expands (heap_push rest c) h'.
  Proof.
    intros H. destruct H as [h|e1 e2 rest c h' Hc He]; [left; reflexivity|].
    right. exists e1, e2, rest, c. repeat split; assumption.
  Qed.

  Lemma expands_nil_inv h' : expands [] h' -> h' = [].
  Proof.
    intros H. destruct (expands_inv _ _ H) as [E|(e1 & e2 & rest & c & E & _)]; [exact E|discriminate E].
  Qed.

  Lemma expands_single_inv e1 h' : expands [e1] h' -> h' = [e1].
  Proof.
    intros H. destruct (expands_inv _ _ H) as [E|(x1 & x2 & rest & c & E & _)]; [exact E|discriminate E].
  Qed.

  Lemma expands_cons2_leaf_inv e1 e2 rest e : expands (e1 :: e2 :: rest) [e] ->
    exists c, In c (ckk_children nameof true (snd e1) (snd e2)) /\
              expands (heap_push rest c) [e].
  Proof.
    intros H. destruct (expands_inv _ _ H) as [E|(x1 & x2 & r & c & E & Hc & He)]; [discriminate E|].
    injection E as -> -> ->. exists c. split; assumption.
  Qed.

  Lemma expands_nonempty h (e : @hentry A) : expands h [e] -> h <> [].
  Proof. intros H E. subst h. apply expands_nil_inv in H. discriminate H. Qed.

  Lemma ckk_bound_eq k (h : @heap A) lb : ckk_bound k h = Some lb ->
    (2 <= k)%nat /\
    lb = - (zmax (heap_flat_sums h)
            - (zsum (heap_flat_sums h) - zmax (heap_flat_sums h)) / (Z.of_nat k - 1)).
  Proof.
    destruct k as [|[|n]]; try discriminate. intros H. split; [lia|].
    change (Some (- (zmax (heap_flat_sums h)
                     - (zsum (heap_flat_sums h) - zmax (heap_flat_sums h))
                       / (Z.of_nat (S (S n)) - 1))) = Some lb) in H.
    injection H as <-. reflexivity.
  Qed.

  (** whole reachable set: no leaf below h can beat the bound computed at h *)
  Theorem ckk_bound_admissible : forall k its h e lb,
    heap_full k its h -> Forall (fun x => 0 <= valueof x) its ->
    expands h [e] -> ckk_bound k h = Some lb -> fst e <= lb.
  Proof.
    intros k its h e lb Hf Hpos Hex Hb.
    pose proof (expands_full k its _ _ Hex Hf) as (Hinv' & Hs' & Hk').
    destruct Hf as (Hinv & _ & _).
    pose proof (expands_dom k its _ _ Hex Hinv Hpos) as D.
    pose proof (flat_total k its _ Hinv) as T1. pose proof (flat_total k its _ Hinv') as T2.
    pose proof (Forall_inv Hk') as Hkey. unfold key_ok in Hkey.
    pose proof (Forall_inv Hs') as Hsorted. unfold sorted_ok in Hsorted.
    rewrite (bins_diff_sorted _ Hsorted) in Hkey.
    destruct Hinv' as [HF' _]. destruct (Forall_inv HF') as [Le _].
    unfold heap_flat_sums in D, T2. cbn [flat_map] in D, T2. rewrite app_nil_r in D, T2.
    fold (heap_flat_sums h) in D.
    destruct (ckk_bound_eq _ _ _ Hb) as [Hk2 ->]. clear Hb.
    assert (Hne : heap_flat_sums h <> []).
    { pose proof (expands_nonempty _ _ Hex) as Hh. destruct h as [|e0 t]; [congruence|].
      destruct Hinv as [HF _]. destruct (Forall_inv HF) as [L0 _].
      unfold heap_flat_sums. cbn [flat_map]. unfold sums.
      destruct (snd e0); cbn [length] in L0; [lia|discriminate]. }
    pose proof (dom_zmax _ _ Hne D) as Hmx.
    assert (Hse : sums (snd e) <> []).
    { unfold sums. destruct (snd e); cbn [length] in Le; [lia|discriminate]. }
    pose proof (zmin_avg _ Hse) as Havg.
    assert (HLs : Z.of_nat (length (sums (snd e))) = Z.of_nat k).
    { unfold sums. rewrite map_length. f_equal. exact Le. }
    rewrite HLs in Havg.
    set (d := Z.of_nat k - 1) in *. assert (Hd : 0 < d) by lia.
    set (mx := zmax (heap_flat_sums h)) in *.
    set (tot := zsum (heap_flat_sums h)) in *.
    assert (Hq : zmin (sums (snd e)) <= (tot - mx) / d).
    { apply Z.div_le_lower_bound; [exact Hd|]. lia. }
    lia.
  Qed.

  (** the same, for heaps met during a run: anything expanded from the initial heap *)
  Corollary ckk_bound_admissible_run : forall k items h e lb,
    (1 <= k)%nat -> Forall (fun x => 0 <= valueof x) items ->
    expands (initial_heap valueof true k items) h ->
    expands h [e] -> ckk_bound k h = Some lb -> fst e <= lb.
  Proof.
    intros k items h e lb Hk Hpos H1 H2 Hb.
    eapply ckk_bound_admissible; [|exact Hpos|exact H2|exact Hb].
    eapply expands_full; [exact H1|]. apply initial_heap_full. exact Hk.
  Qed.

  (** pruning is sound: a pruned heap has no leaf that would have been accepted *)
  Corollary ckk_prune_sound : forall k its h e best,
    heap_full k its h -> Forall (fun x => 0 <= valueof x) its ->
    pruned k h best = true -> expands h [e] -> gt_best (fst e) best = false.
  Proof.
    intros k its h e best Hf Hpos Hp Hex. unfold pruned in Hp.
    destruct (ckk_bound k h) as [lb|] eqn:Hb; [|discriminate].
    pose proof (ckk_bound_admissible k its h e lb Hf Hpos Hex Hb) as Hle.
    destruct best as [b|]; cbn [le_best] in Hp; [|discriminate].
    cbn [gt_best]. lia.
  Qed.

  (** ---- 8. ckk returns the best leaf of its own search tree (C02 ingredient) ---- *)
  Definition stop_ok (st : @ckk_state A) : Prop := ckk_stop st = true -> ckk_best st = Some 0.
  Definition best_le (st st' : @ckk_state A) : Prop :=
    forall b, ckk_best st = Some b -> exists b', ckk_best st' = Some b' /\ b <= b'.
  Definition covers (st : @ckk_state A) (e : @hentry A) : Prop :=
    exists b, ckk_best st = Some b /\ fst e <= b.

  Lemma best_le_refl st : best_le st st.
  Proof. intros b Hb. exists b. split; [exact Hb|lia]. Qed.

  Lemma best_le_trans s1 s2 s3 : best_le s1 s2 -> best_le s2 s3 -> best_le s1 s3.
  Proof.
    intros H1 H2 b Hb. destruct (H1 b Hb) as (b' & Hb' & L1). destruct (H2 b' Hb') as (b'' & Hb'' & L2).
    exists b''. split; [exact Hb''|lia].
  Qed.

  Lemma covers_mono s1 s2 e : best_le s1 s2 -> covers s1 e -> covers s2 e.
  Proof.
    intros H (b & Hb & L). destruct (H b Hb) as (b' & Hb' & L'). exists b'. split; [exact Hb'|lia].
  Qed.

  Lemma zmin_le_zmax l : zmin l <= zmax l.
  Proof.
    destruct l as [|x t]; [cbn; lia|].
    pose proof (zmax_ge (x :: t)) as G. rewrite Forall_forall in G.
    apply G, zmin_in. discriminate.
  Qed.

  Lemma leaf_key (e : @hentry A) : sorted_ok e -> key_ok e ->
    fst e = - (zmax (sums (snd e)) - zmin (sums (snd e))).
  Proof. intros Hs Hk. unfold key_ok in Hk. rewrite Hk, (bins_diff_sorted _ Hs). reflexivity. Qed.

  Lemma expands_leaf_key k its h e : heap_full k its h -> expands h [e] ->
    fst e = - (zmax (sums (snd e)) - zmin (sums (snd e))).
  Proof.
    intros Hf Hex. destruct (expands_full k its _ _ Hex Hf) as (_ & Hs & Hk).
    apply leaf_key; [exact (Forall_inv Hs)|exact (Forall_inv Hk)].
  Qed.

  Lemma expands_leaf_nonpos k its h e : heap_full k its h -> expands h [e] -> fst e <= 0.
  Proof.
    intros Hf Hex. rewrite (expands_leaf_key k its h e Hf Hex).
    pose proof (zmin_le_zmax (sums (snd e))). lia.
  Qed.

  Definition explore_best_spec (k : nat) (its : list A) (f : nat) : Prop :=
    forall h st, heap_full k its h -> (length h <= S f)%nat -> stop_ok st ->
      stop_ok (ckk_explore nameof true f true k h st) /\
      best_le st (ckk_explore nameof true f true k h st) /\
      forall e, expands h [e] -> covers (ckk_explore nameof true f true k h st) e.

  Lemma fold_best k its f : explore_best_spec k its f ->
    forall L st,
      (forall c, In c L -> heap_full k its c /\ (length c <= S f)%nat) -> stop_ok st ->
      stop_ok (fold_left (fun s c => ckk_explore nameof true f true k c s) L st) /\
      best_le st (fold_left (fun s c => ckk_explore nameof true f true k c s) L st) /\
      forall c e, In c L -> expands c [e] ->
        covers (fold_left (fun s c => ckk_explore nameof true f true k c s) L st) e.
  Proof.
    intros IHf. induction L as [|c0 cs IH]; intros st HL Hso; cbn [fold_left].
    - split; [exact Hso|]. split; [apply best_le_refl|]. intros c e [].
    - destruct (HL c0 (or_introl eq_refl)) as [Hf0 Hl0].
      destruct (IHf c0 st Hf0 Hl0 Hso) as (S1 & B1 & C1).
      destruct (IH (ckk_explore nameof true f true k c0 st)) as (S2 & B2 & C2);
        [intros c Hc; apply HL; right; exact Hc|exact S1|].
      split; [exact S2|]. split; [eapply best_le_trans; eassumption|].
      intros c e [<-|Hc] Hex.
      + eapply covers_mono; [exact B2|]. apply C1. exact Hex.
      + eapply C2; eassumption.
  Qed.

  Lemma explore_best_step k its fuel : Forall (fun x => 0 <= valueof x) its ->
    (forall f, fuel = S f -> explore_best_spec k its f) -> explore_best_spec k its fuel.
  Proof.
    intros Hpos IH h st Hf HL Hso. rewrite ckk_explore_eq.
    destruct (ckk_stop st) eqn:Es.
    - split; [exact Hso|]. split; [apply best_le_refl|].
      intros e He. exists 0. split; [apply Hso; exact Es|].
      eapply expands_leaf_nonpos; eassumption.
    - assert (St : stop_ok (tick st)) by (intros H; discriminate H).
      assert (Bt : best_le st (tick st)) by (exact (best_le_refl st)).
      destruct (pruned k h (ckk_best st)) eqn:Ep.
      + split; [exact St|]. split; [exact Bt|].
        intros e He. pose proof (ckk_prune_sound k its h e _ Hf Hpos Ep He) as G.
        unfold covers. cbn [tick ckk_best].
        destruct (ckk_best st) as [b|]; cbn [gt_best] in G; [|discriminate].
        exists b. split; [reflexivity|lia].
      + destruct h as [|e1 [|e2 rest]].
        * split; [exact St|]. split; [exact Bt|].
          intros e He. apply expands_nil_inv in He. discriminate He.
        * destruct (gt_best (fst e1) (ckk_best st)) eqn:G.
          -- split; [|split].
             ++ unfold stop_ok, accept. cbn [ckk_stop ckk_best]. intros H. f_equal. lia.
             ++ intros b Hb. exists (fst e1). unfold accept. cbn [ckk_best].
                split; [reflexivity|]. rewrite Hb in G. cbn [gt_best] in G. lia.
             ++ intros e He. apply expands_single_inv in He. injection He as ->.
                exists (fst e1). unfold accept. cbn [ckk_best].
                split; [reflexivity|lia].
          -- split; [exact St|]. split; [exact Bt|].
             intros e He. apply expands_single_inv in He. injection He as ->.
             unfold covers. cbn [tick ckk_best].
             destruct (ckk_best st) as [b|]; cbn [gt_best] in G; [|discriminate].
             exists b. split; [reflexivity|lia].
        * destruct fuel as [|f]; [cbn [length] in HL; lia|].
          destruct (fold_best k its f (IH f eq_refl)
                      (rev (sort_asc topdiff (children rest (snd e1) (snd e2)))) (tick st))
            as (S2 & B2 & C2).
          -- intros c Hc. destruct (children_in _ _ _ _ Hc) as (comb & Hcomb & ->).
             split; [eapply child_full; eassumption|].
             rewrite heap_push_length. cbn [length] in HL. lia.
          -- exact St.
          -- split; [exact S2|]. split; [exact B2|].
             intros e He. destruct (expands_cons2_leaf_inv _ _ _ _ He) as (c & Hc & Hex').
             eapply C2; [|exact Hex'].
             apply -> in_rev. apply sort_asc_In. unfold children. apply in_map. exact Hc.
  Qed.

  Lemma explore_best k its : Forall (fun x => 0 <= valueof x) its ->
    forall fuel, explore_best_spec k its fuel.
  Proof.
    intros Hpos. induction fuel as [|f IH]; apply explore_best_step; try exact Hpos.
    - intros f E. discriminate.
    - intros f' E. injection E as <-. exact IH.
  Qed.

  (** no leaf of the CKK search tree has a smaller max-min difference than ckk's result *)
  Theorem ckk_best_in_tree : forall k items b e, (1 <= k)%nat ->
    Forall (fun x => 0 <= valueof x) items ->
    ckk valueof nameof true k items = Ok b ->
    expands (initial_heap valueof true k items) [e] ->
    zmax (sums b) - zmin (sums b) <= zmax (sums (snd e)) - zmin (sums (snd e)).
  Proof.
    intros k items b e Hk Hpos Hckk Hex.
    pose proof (initial_heap_full k items Hk) as Hf.
    destruct (explore_best k items Hpos (length items) (initial_heap valueof true k items)
                (mk_ckk None None [] false O) Hf) as (_ & _ & HC).
    - rewrite initial_heap_length. lia.
    - intros H. discriminate H.
    - fold (ckk_run valueof nameof true true None k items) in HC.
      destruct (HC e Hex) as (bb & Hbb & Hle).
      pose proof (run_chain k items) as [Hbest _]. cbv zeta in Hbest.
      pose proof (run_hd true None k items) as Hhd. cbv zeta in Hhd.
      pose proof (run_sorted true None k items) as Hsrt.
      unfold ckk in Hckk.
      destruct (ckk_part (ckk_run valueof nameof true true None k items)) as [p|]; [|discriminate].
      injection Hckk as <-.
      destruct (ckk_yields (ckk_run valueof nameof true true None k items)) as [|y ys];
        cbn [hd_error] in Hhd; [discriminate|].
      injection Hhd as ->.
      cbn [hd_error option_map] in Hbest. rewrite Hbest in Hbb. injection Hbb as <-.
      rewrite (bins_diff_sorted _ (Forall_inv Hsrt)) in Hle.
      rewrite (expands_leaf_key k items _ e Hf Hex) in Hle.
      rewrite (zmax_perm _ _ (sort_bins_sums_perm y)), (zmin_perm _ _ (sort_bins_sums_perm y)).
      lia.
  Qed.

End KKProofs.

Print Assumptions initial_heap_inv.
Print Assumptions kk_partition.
Print Assumptions kk_erase.
Print Assumptions kk_gap.
Print Assumptions perms_sound_local.
Print Assumptions ckk_partition.
Print Assumptions ckk_generator_valid.
Print Assumptions ckk_generator_valid_any.
Print Assumptions ckk_generator_sorted.
Print Assumptions ckk_generator_decreasing.
Print Assumptions ckk_generator_last.
Print Assumptions ckk_bound_admissible.
Print Assumptions ckk_bound_admissible_run.
Print Assumptions ckk_prune_sound.
Print Assumptions ckk_best_in_tree.
